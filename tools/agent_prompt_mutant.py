"""Prompt for a sub-agent that plants one property-breaking change (usage: agent_prompt_mutant.py <n> <Cxx> <direction>).
The main session runs this and pastes the OUTPUT into the Agent call - the sub-agent itself must not read /verif.
Needs /tmp/tools/baseline.py (copy of tools/baseline.py) and a worktree /tmp/wt_m<n>."""
import sys
n, pid, hint = sys.argv[1], sys.argv[2], sys.argv[3]
import json
prop = None
for line in open('/verif/properties.jsonl'):
    p = json.loads(line)
    if p['id'] == pid:
        prop = json.dumps({k: p[k] for k in ('id', 'title', 'statement', 'quantifier', 'why_tests_cant', 'anchors')}, indent=1)
print(f"""You are helping to evaluate a verification tool by mutation: you will plant ONE realistic, subtle bug in a Python library.

Workspace: /tmp/wt_m{n} is a scratch git worktree of the library dagghe/pyOMA2 (Python package under src/pyoma2; operational modal analysis: FDD/EFDD, SSI, pLSCF, multi-setup merging, plotting). Work ONLY inside /tmp/wt_m{n} (and /tmp for scratch files). Never read, write or run anything under /repo or /verif. There is no network. Use /venv/bin/python (numpy, scipy, matplotlib, pydantic, pandas installed). To make Python import YOUR tree, always run with PYTHONPATH=/tmp/wt_m{n}/src (check `python -c 'import pyoma2; print(pyoma2.__file__)'`).

The semantic property that the unmodified library satisfies (JSON):
{prop}

Your task: change the library source under /tmp/wt_m{n}/src/pyoma2 so that this property is BROKEN, while the code still imports and the existing test suite still passes. Requirements:
1. The change must be realistic (the kind of bug a maintainer could introduce in a refactoring or "optimisation": stale state, aliasing instead of copying, wrong index/permutation, an off-by-one in a special case, a check dropped on one path, a cache, an in-place operation, an error swallowed, ...), small (a few lines, 1-2 sites), and must not be detectable by ordinary single-call use: it should need something specific to manifest - a particular sequence of several operations, a particular ordering/interleaving, a fault/exception or crash at a particular point, an unusual but legal input/configuration, or two cooperating sites that each look fine alone. Direction for this mutant: {hint}
2. The pinned test suite must still pass: run `python3 /tmp/tools/baseline.py /tmp/wt_m{n}` (takes ~1 minute; it runs pytest on your tree and compares with the 75-test baseline; 17 other tests always fail offline and are ignored). It must print `missing 0`.
3. Write a demonstration script /tmp/wt_m{n}/demo.py that uses only the public API of the library (for the interactive dialog, drive it head-less: patch tkinter/the canvas as tests/ do and call the event handlers, or build matplotlib events) and exits with status 1 (printing what went wrong) when run against your modified tree, and exits 0 when run against the unmodified tree. Verify both: `PYTHONPATH=/tmp/wt_m{n}/src /venv/bin/python demo.py` must fail; then `git stash` (or `git diff > /tmp/m{n}.diff; git checkout -- src`) and confirm it passes on the pristine tree, then restore your change (`git stash pop` / `git apply /tmp/m{n}.diff`). Use MPLBACKEND=Agg; no display is available.
4. Leave your change UNCOMMITTED in the worktree (so that `git -C /tmp/wt_m{n} diff -- src` shows exactly the mutation; demo.py stays untracked). Do not modify tests.

Note: the worktree HEAD already contains a few recent "fix:" commits (look at `git log --oneline -6`); do not simply revert one of those commits - invent a different bug.

Final answer (concise): the diff, which clause of the property it breaks, exactly what is needed for it to manifest (sequence / fault / input), and the commands you ran with their outcomes (baseline result, demo on mutated tree, demo on pristine tree).""")
