#!/bin/bash
# usage: tools/soak.sh <first-seed> <last-seed> [tier]
# Runs every check once per VERIF_SEED on the unchanged tree without touching evidence; any exit != 0 is reported.
# A non-zero exit here is either a genuine defect or a false alarm of the machinery - both must be investigated.
cd "$(dirname "$0")/.."
A=${1:-1}; B=${2:-10}; TIER=${3:-quick}
bad=0
for s in $(seq $A $B); do
  for p in C14 C15 C16; do
    out=$(VERIF_SEED=$s VERIF_REPLAY_DIR=${VERIF_REPLAY_DIR:-$PWD/soak_replays} ./check $p --tier $TIER --no-evidence 2>&1); rc=$?
    line=$(echo "$out" | grep -E "^$p tier=" | cut -c1-140)
    echo "seed=$s $p exit=$rc $line"
    if [ $rc -ne 0 ]; then bad=$((bad+1)); echo "$out" | grep -v KNOWN-FINDING | tail -8; fi
  done
done
echo "soak: $bad non-zero exits"
exit $([ $bad -eq 0 ] && echo 0 || echo 1)
