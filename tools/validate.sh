#!/bin/bash
# Full validation of the machinery on the unchanged tree (run through `vp run --with-repo` so that the repository
# snapshot is immune to tools/run_seeded.py):  export VERIF_REPO_SRC=$VP_RUN_REPO/src; tools/validate.sh
# Any line "NONZERO" or a non-empty list of VIOLATION/HARNESS lines needs investigation before the commit is trusted.
cd "$(dirname "$0")/.."
export VERIF_REPLAY_DIR=${VERIF_REPLAY_DIR:-$PWD/soak_replays}
bad=0
run() { # label, command...
  local label=$1; shift
  out=$("$@" 2>&1); rc=$?
  echo "[$label] exit=$rc $(echo "$out" | grep -E '^C1[456] tier|determinism:|mutants:|equivalents:' | tail -1 | cut -c1-150)"
  if [ $rc -ne 0 ]; then bad=$((bad+1)); echo "NONZERO $label"; echo "$out" | grep -v KNOWN-FINDING | tail -15; fi
}
for s in ${C15_THOROUGH_SEEDS:-0 5}; do run "C15 thorough seed $s" env VERIF_SEED=$s ./check C15 --tier thorough --no-evidence; done
for s in ${C14_THOROUGH_SEEDS:-0}; do run "C14 thorough seed $s" env VERIF_SEED=$s ./check C14 --tier thorough --no-evidence; done
for s in ${C16_THOROUGH_SEEDS:-0}; do run "C16 thorough seed $s" env VERIF_SEED=$s ./check C16 --tier thorough --no-evidence; done
for s in $(seq 1 ${SOAK_LAST:-40}); do for p in C14 C15 C16; do run "$p quick seed $s" env VERIF_SEED=$s ./check $p --tier quick --no-evidence; done; done
run "determinism" ./check --selftest determinism --runs 100
run "sensitivity" ./check --selftest sensitivity
run "equivalents" ./check --selftest equivalents
echo "validate: $bad non-zero exits"
exit $([ $bad -eq 0 ] && echo 0 || echo 1)
