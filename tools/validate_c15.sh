#!/bin/bash
# C15 only: thorough seeds, a short soak, and its self-tests (after a change that touched checks/c15_runs.py only)
cd "$(dirname "$0")/.."
export VERIF_REPLAY_DIR=${VERIF_REPLAY_DIR:-$PWD/soak_replays}
bad=0
run() { local label=$1; shift; out=$("$@" 2>&1); rc=$?
  echo "[$label] exit=$rc $(echo "$out" | grep -E '^C1[456] tier|determinism:|mutants:|equivalents:' | tail -1 | cut -c1-150)"
  if [ $rc -ne 0 ]; then bad=$((bad+1)); echo "NONZERO $label"; echo "$out" | grep -v KNOWN-FINDING | tail -15; fi; }
for s in ${C15_THOROUGH_SEEDS:-0 5}; do run "C15 thorough seed $s" env VERIF_SEED=$s ./check C15 --tier thorough --no-evidence; done
for s in $(seq 1 ${SOAK_LAST:-8}); do run "C15 quick seed $s" env VERIF_SEED=$s ./check C15 --tier quick --no-evidence; done
run "determinism C15" ./check C15 --selftest determinism --runs 100
run "sensitivity C15" ./check C15 --selftest sensitivity
run "equivalents C15" ./check C15 --selftest equivalents
echo "validate: $bad non-zero exits"
exit $([ $bad -eq 0 ] && echo 0 || echo 1)
