#!/usr/bin/env python3
"""Apply each kept change under /verif/seeded/<id>/patch.diff to /repo, run the quick check of its
property, undo the change straight afterwards, and record the outcome in seeded/<id>/meta.json.

usage: tools/run_seeded.py [--tier quick|thorough] [id ...]
"""
import glob
import json
import os
import re
import subprocess
import sys
import time

V = "/verif"
args = sys.argv[1:]
tier = "quick"
if "--tier" in args:
    i = args.index("--tier")
    tier = args[i + 1]
    del args[i:i + 2]
ids = args or sorted(os.path.basename(os.path.dirname(p)) for p in glob.glob(f"{V}/seeded/*/patch.diff"))
assert subprocess.run(["git", "-C", "/repo", "status", "--porcelain", "--untracked-files=no"], capture_output=True, text=True).stdout.strip() == "", "/repo not clean"
rows = []
for sid in ids:
    d = f"{V}/seeded/{sid}"
    meta = json.load(open(f"{d}/meta.json"))
    pid = meta["property"]
    ap = subprocess.run(["git", "-C", "/repo", "apply", f"{d}/patch.diff"], capture_output=True, text=True)
    if ap.returncode:
        rows.append((sid, pid, "apply failed", ap.stderr.strip()[:100]))
        continue
    try:
        env = dict(os.environ, VERIF_REPLAY_DIR=f"/tmp/rp_seeded/{sid}")
        t0 = time.time()
        p = subprocess.run([f"{V}/check", pid, "--tier", tier, "--no-evidence"], env=env, capture_output=True, text=True, cwd=V)
        dt = time.time() - t0
    finally:
        subprocess.run(["git", "-C", "/repo", "checkout", "--", "."], check=True)
    fps = re.findall(r"^  (\S+): (\d+) violating runs", p.stdout, re.M)
    more = re.findall(r"more distinct violation fingerprints: (.*)", p.stdout)
    meta["detection"] = {"check": f"./check {pid} --tier {tier}", "exit": p.returncode, "wall_s": round(dt, 1),
                         "fingerprints": {a: int(b) for a, b in fps}, "further_fingerprints": more[0].split(", ") if more else []}
    json.dump(meta, open(f"{d}/meta.json", "w"), indent=1)
    rows.append((sid, pid, p.returncode, ", ".join(f"{a} x{b}" for a, b in fps) or p.stdout.strip().splitlines()[-1][:120]))
for r in rows:
    print(*r, sep="  ")
st = subprocess.run(["git", "-C", "/repo", "status", "--porcelain", "--untracked-files=no"], capture_output=True, text=True).stdout.strip()
print("repo clean" if not st else "REPO NOT CLEAN: " + st)
