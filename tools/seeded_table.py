#!/usr/bin/env python3
"""Print the markdown table of seeded changes and how the checks detect them (from seeded/*/meta.json)."""
import glob
import json
import re

rows = []
for p in glob.glob("/verif/seeded/*/meta.json"):
    m = json.load(open(p))
    rows.append(m)
rows.sort(key=lambda m: int(re.sub(r"\D", "", m["id"])))
print("| id | property | change | needs | quick check: exit, oracles (violating runs) |")
print("|----|----------|--------|-------|-----------------------------------------------|")
for m in rows:
    d = m.get("detection", {})
    by = {}
    for fp, n in d.get("fingerprints", {}).items():
        o = fp.split("@")[0]
        by[o] = by.get(o, 0) + n
    more = sorted({f.split("@")[0] for f in d.get("further_fingerprints", [])} - set(by))
    det = f"exit {d.get('exit', '?')}: " + ", ".join(f"`{o}` ({n})" for o, n in sorted(by.items())) + (", also " + ", ".join(f"`{o}`" for o in more) if more else "")
    print(f"| {m['id']} | {m['property']} | {m['what']} | {m['needs_to_manifest']} | {det} |")
