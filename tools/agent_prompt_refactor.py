"""Prompt for a sub-agent that writes a behaviour-preserving refactoring (usage: agent_prompt_refactor.py <n> <Cxx> <direction>).
Needs /tmp/tools/baseline.py and a worktree /tmp/wt_e<n>; tell agents to use patch files, not git stash (the stash is shared by worktrees)."""
import sys
n, pid, hint = sys.argv[1], sys.argv[2], sys.argv[3]
import json
prop = None
for line in open('/verif/properties.jsonl'):
    p = json.loads(line)
    if p['id'] == pid:
        prop = json.dumps({k: p[k] for k in ('id', 'title', 'statement', 'quantifier', 'why_tests_cant', 'anchors')}, indent=1)
print(f"""You are helping to evaluate a verification tool for false alarms: you will write ONE substantial but BEHAVIOUR-PRESERVING refactoring of a Python library.

Workspace: /tmp/wt_e{n} is a scratch git worktree of the library dagghe/pyOMA2 (Python package under src/pyoma2; operational modal analysis: FDD/EFDD, SSI, pLSCF, multi-setup merging, plotting). Work ONLY inside /tmp/wt_e{n} (and /tmp for scratch files). Never read, write or run anything under /repo or /verif. There is no network. Use /venv/bin/python (numpy, scipy, matplotlib, pydantic, pandas installed). To make Python import YOUR tree, always run with PYTHONPATH=/tmp/wt_e{n}/src.

The semantic property that the library satisfies and MUST STILL SATISFY after your change (JSON):
{prop}

Your task: refactor the code that implements this property (the files named under "anchors") so that the implementation looks and works noticeably differently inside, while everything the property states still holds for every input and call history, and the public API (class names, method names and signatures, public attribute names, the structure and values of results) is unchanged. Direction: {hint}
Requirements:
1. The refactoring must be the kind of change a maintainer would really make (restructuring internals, different data structures, helper extraction, different but equivalent numpy/scipy call patterns, defensive copies, private attributes renamed or replaced by properties, different iteration order where order is not promised, clearer error handling that raises the same exception types in the same situations), touching at least ~25 lines. Do NOT change observable behaviour that the property talks about; numerical results of preprocessing may differ only by floating-point rounding (<= 1e-12 relative); results of algorithm runs must stay bit-identical.
2. The pinned test suite must still pass: run `python3 /tmp/tools/baseline.py /tmp/wt_e{n}` (about 1 minute); it must print `missing 0`.
3. Write /tmp/wt_e{n}/equiv_check.py: a script that exercises the property on your refactored tree with a few non-trivial histories (several operations in sequence, not just one call) against an independent expectation (plain scipy/numpy, or a fresh object) and exits 0. Run it on both the refactored and the pristine tree (`git stash` / `git stash pop`); it must exit 0 on both.
4. Leave your change UNCOMMITTED in the worktree (`git -C /tmp/wt_e{n} diff -- src` shows it); do not modify tests.

Final answer (concise): a summary of what you restructured, why the property still holds, and the commands you ran with their outcomes.""")
