#!/usr/bin/env python3
"""Run the pinned test suite of a pyOMA2 tree and compare with /root/.vp/BASELINE.json.

usage: baseline.py [repo_dir]   (default /repo)   exit 0 iff every stable-pass test passes.
"""
import json
import os
import subprocess
import sys
import tempfile
import xml.etree.ElementTree as ET

repo = os.path.abspath(sys.argv[1]) if len(sys.argv) > 1 else "/repo"
base = json.load(open("/root/.vp/BASELINE.json"))
want = set(base["stable_pass"])
with tempfile.TemporaryDirectory() as td:
    x = os.path.join(td, "j.xml")
    env = dict(os.environ, PYTHONPATH=os.path.join(repo, "src") + ":" + repo, PYTHONDONTWRITEBYTECODE="1")
    p = subprocess.run(
        ["/venv/bin/python", "-m", "pytest", "-ra", "-q", "-p", "no:cacheprovider", "--timeout=900",
         "--continue-on-collection-errors", f"--junitxml={x}"],
        cwd=repo, env=env, capture_output=True, text=True)
    passed = set()
    for tc in ET.parse(x).getroot().iter("testcase"):
        ok = not any(ch.tag in ("failure", "error", "skipped") for ch in tc)
        if ok:
            passed.add(f"{tc.get('classname')}::{tc.get('name')}")
missing = sorted(want - passed)
print(f"{repo}: {len(passed)} passed; stable-pass baseline {len(want)}; missing {len(missing)}")
for m in missing:
    print("  NOT PASSING:", m)
sys.exit(1 if missing else 0)
