#!/usr/bin/env python3
"""Print the 'Measured' table of DESIGN.md 12.4 from the committed evidence files."""
import json

print("| check | tier | histories | wall | histories/hour | logical steps | distinct signatures | faults fired inside operations |")
print("|-------|------|-----------|------|----------------|---------------|---------------------|--------------------------------|")
for pid in ("C14", "C15", "C16"):
    e = json.load(open(f"/verif/evidence/{pid}.json"))
    c = e["coverage"]
    f = ", ".join(f"{k} {v}" for k, v in sorted(c["fault_kinds_fired_inside_operations"].items()))
    print(f"| {pid} | {e['tier']} | {c['evaluations']} | {e['wall_s']:.0f} s | {c['runs_per_hour']} | "
          f"{c['steps_total_logical_time']} | {c['distinct_signatures']} | {f} |")
for pid in ("C14", "C15", "C16"):
    c = json.load(open(f"/verif/evidence/{pid}.json"))["coverage"]
    pr = c["probes"]
    top = sorted(pr.items(), key=lambda kv: -kv[1])
    print(f"\n{pid} probes ({len(pr)}): " + ", ".join(f"{k} {v}" for k, v in top))
