#!/bin/bash
# usage: confirm_seeded.sh <worktree> <seeded-id> <property>
# Confirms a candidate change independently: suite still passes, demo fails with it and passes without it.
set -u
WT=$1; ID=$2; PID=$3
OUT=/verif/seeded/$ID
mkdir -p $OUT
git -C $WT diff -- src > $OUT/patch.diff
[ -s $OUT/patch.diff ] || { echo "empty diff"; exit 1; }
cp $WT/demo.py $OUT/demo.py
echo "--- baseline on mutated tree"
python3 /verif/tools/baseline.py $WT | tail -3; B=$?
echo "--- demo on mutated tree"
(cd $WT && MPLBACKEND=Agg PYOMA_LOG_LEVEL=CRITICAL TQDM_DISABLE=1 PYTHONPATH=$WT/src timeout 600 /venv/bin/python demo.py > /tmp/demo_mut.out 2>&1); M=$?
tail -3 /tmp/demo_mut.out
git -C $WT stash -q
echo "--- demo on pristine tree"
(cd $WT && MPLBACKEND=Agg PYOMA_LOG_LEVEL=CRITICAL TQDM_DISABLE=1 PYTHONPATH=$WT/src timeout 600 /venv/bin/python demo.py > /tmp/demo_pri.out 2>&1); P=$?
tail -2 /tmp/demo_pri.out
git -C $WT stash pop -q
echo "RESULT id=$ID property=$PID baseline_exit=$B demo_mutated_exit=$M demo_pristine_exit=$P"
