"""The check proper: batch -> determinism spot check -> minimise -> replay -> findings -> evidence."""
import json
import os
import time

from sim import runner
from sim.env import VERIF_DIR, repo_src

# runs per tier; sized so that quick is about a minute on 16 processes
TIERS = {
    "C14": {"quick": 12000, "thorough": 400000},
    "C15": {"quick": 1400, "thorough": 40000},
    "C16": {"quick": 1100, "thorough": 24000},
}
WALL_CAP = {"quick": 240, "thorough": 4200}
MIN_FRACTION = 0.25  # fewer completed runs than this fraction of the plan = harness error, not a pass
MAX_REPORTED = 4

ASSUMPTIONS = [
    "sampling, not enumeration: a clean batch is evidence, not proof",
    "single-threaded BLAS (OPENBLAS/OMP/MKL_NUM_THREADS=1) so that equal inputs give bitwise equal results; spot-checked on every run by re-executing seeds in another process",
    "scipy.signal, numpy, pickle and matplotlib's event/transform code are trusted (they are the reference or run for real)",
    "histories are sequential API calls / delivered UI events; pre-emptive thread interleavings are out of scope (no property claims thread safety)",
]


def seeds_for(base, n):
    return [base * 1_000_003 + i for i in range(n)]


def run_check(pid, a):
    mod = runner.load_check(pid)
    base = int(os.environ.get("VERIF_SEED", "0"))
    n = a.runs or TIERS[pid][a.tier]
    seeds = seeds_for(base, n)
    t0 = time.time()
    try:
        agg, bad, (info, digests) = runner.run_batch(
            pid, seeds, a.tier, a.nproc, WALL_CAP[a.tier], chunk=getattr(mod, "CHUNK", 8), want_digests=True
        )
    except runner.HarnessError as e:
        print(f"HARNESS-ERROR {e}")
        return 2
    runs = agg.n.get("runs", 0)
    if runs < MIN_FRACTION * n:
        print(f"HARNESS-ERROR only {runs} of {n} planned runs finished within the wall cap")
        return 2

    # determinism spot check: re-execute a few seeds in this (different) process
    mod.init_worker()
    known = runner.known_fingerprints(pid)
    spot = [s for s in seeds[:: max(1, len(seeds) // 6)] if s in digests][:6]
    irreproducible = None
    for s in spot:
        r = mod.run_case(s, tier=a.tier, known=known)
        if r["digest"] != digests[s]:
            irreproducible = f"seed {s} is not reproducible: digest {digests[s]} in worker, {r['digest']} in parent"
            break
    if irreproducible and not bad:
        print("HARNESS-ERROR " + irreproducible)
        return 2

    # violations: one minimised replay per distinct fingerprint
    by_fp = {}
    for b in bad:
        for v in b["violations"]:
            by_fp.setdefault(v["fingerprint"], []).append((b, v))
    reported = []
    harness_problem = False
    for fp in sorted(by_fp)[:MAX_REPORTED]:
        b, v = min(by_fp[fp], key=lambda bv: (len(bv[0]["ops"]), bv[0]["seed"]))
        case = {"seed": b["seed"], "world": b["world"], "ops": b["ops"]}
        if "extra" in b:
            case["extra"] = b["extra"]
        got = _shrink_and_verify(pid, mod, case, fp, known, a, b, by_fp)
        if got is None:
            print(f"HARNESS-ERROR violation {fp} of seed {b['seed']} could not be reproduced from a replay file "
                  f"(neither alone nor after the histories that preceded it in its worker process)")
            harness_problem = True
            continue
        reported.append(got)

    wall = time.time() - t0
    # known findings that fired
    findings = runner.load_findings()
    kf_lines = []
    for e in findings.get("known", []):
        if e["property"] != pid:
            continue
        hits = agg.n.get("known." + e["fingerprint"], 0)
        if hits:
            ex = sorted(agg.sets.get("knownex." + e["fingerprint"], [""]))[0]
            kf_lines.append((e, hits, ex))

    if not a.no_evidence:
        write_evidence(pid, mod, a, base, agg, info, wall, reported, by_fp, kf_lines, len(spot))

    print(f"{pid} tier={a.tier} seed={base} runs={runs} steps={agg.n.get('steps', 0)} "
          f"distinct_signatures={len(agg.sets.get('signatures', ()))} wall={wall:.1f}s "
          f"({runs / max(wall, 1e-9) * 3600:.0f} runs/h) tree={repo_src()}")
    for e, hits, ex in kf_lines:
        print(f"KNOWN-FINDING: property={pid} {e['id']} {e['fingerprint']} hit in {hits} steps: {e['what']}")
    for fp, path, vv, cnt, tries in reported:
        print(f"  {fp}: {cnt} violating runs; minimised in {tries} executions; step {vv['step']}: {vv['detail']}")
        print(f"VIOLATION property={pid} replay={path}")
    if len(by_fp) > MAX_REPORTED:
        print(f"  ... and {len(by_fp) - MAX_REPORTED} more distinct violation fingerprints: "
              + ", ".join(sorted(by_fp)[MAX_REPORTED:]))
    if reported:
        return 1
    if harness_problem:
        return 2
    return 0


def _shrink_and_verify(pid, mod, case, fp, known, a, b, by_fp):
    """Minimise, write the replay file and re-verify it in a fresh interpreter. Three stages, the later
    ones only when the code under test keeps state between histories (which makes a history's outcome depend on
    what the process ran before): in-process ddmin -> fresh-process ddmin -> fresh-process ddmin with the
    histories that preceded the failing one in its worker."""
    budget = 45 if a.tier == "quick" else 120
    small, tries = runner.minimise(mod, case, fp, budget_s=budget, known=known)
    if small is not None:
        small["seed"] = b["seed"]
        r = mod.run_case(b["seed"], case=small, known=known)
        vv = [x for x in r["violations"] if x["fingerprint"] == fp]
        if vv:
            path = runner.write_replay(pid, small, vv[0], b["seed"], r["digest"])
            ok, out = runner.fresh_replay(pid, path)
            if ok:
                return (fp, path, vv[0], len(by_fp[fp]), tries)
            os.remove(path)
    v0 = [x for x in b["violations"] if x["fingerprint"] == fp][0]
    for stage, pre in (("alone", None), ("session", b.get("pre_seeds") or None)):
        if stage == "session" and not pre:
            continue
        c = dict(case)
        if pre:
            c["pre_seeds"] = pre
            c["tier"] = a.tier
        small, t2 = runner.minimise_fresh(mod, pid, c, fp, budget_s=2 * budget, nproc=a.nproc)
        tries += t2
        if small is None:
            continue
        small["seed"] = b["seed"]
        path = runner.write_replay(pid, small, {**v0, "detail": v0["detail"] + " [state kept between histories: replay verified in fresh interpreters only]"},
                                   b["seed"], None)
        # record the digest of a fresh execution so that --strict-digest has something to compare with
        import json as _json
        import subprocess as _sp
        import sys as _sys
        p = _sp.run([_sys.executable, os.path.join(VERIF_DIR, "check"), pid, "--replay", path], capture_output=True, text=True)
        dg = [ln.split("digest=")[1].split()[0] for ln in p.stdout.splitlines() if "digest=" in ln]
        doc = _json.load(open(path))
        if dg:
            doc["digest"] = dg[0]
        else:
            doc.pop("digest", None)
        _json.dump(doc, open(path, "w"), indent=1, sort_keys=True)
        ok, out = runner.fresh_replay(pid, path)
        if ok:
            return (fp, path, v0, len(by_fp[fp]), tries)
        os.remove(path)
    return None


def write_evidence(pid, mod, a, base, agg, info, wall, reported, by_fp, kf_lines, spot_n):
    runs = agg.n.get("runs", 0)
    cov = {
        "evaluations": runs,
        "distinct_nontrivial": len(agg.sets.get("nontrivial_signatures", ())),
        "rule": mod.RULE,
        "samples": agg.samples[:3],
        "distinct_signatures": len(agg.sets.get("signatures", ())),
        "nontrivial_runs": agg.n.get("nontrivial_runs", 0),
        "distinct_abstract_states": len(agg.sets.get("states", ())),
        "steps_total_logical_time": agg.n.get("steps", 0),
        "simulated_time_note": "no clock exists in the code under test; simulated time is counted in logical steps (operations applied / UI events delivered)",
        "runs_per_hour": round(runs / max(wall, 1e-9) * 3600),
        "seeds": f"{base * 1_000_003} .. {base * 1_000_003 + runs - 1}",
        "planned_runs": info["chunks"] and TIERS[pid][a.tier] if not a.runs else a.runs,
        "wall_capped": info["capped"],
        "fault_kinds_fired_inside_operations": agg.group("fault.fired."),
        "faults_configured_but_not_fired": agg.n.get("fault.configured_not_fired", 0),
        "probes": agg.group("probe."),
        "components_real": mod.COMPONENTS["real"],
        "components_stub": mod.COMPONENTS["stub"],
        "determinism_spot_checks": spot_n,
        "known_findings_matched": {e["id"]: hits for e, hits, _ in kf_lines},
        "violation_fingerprints": {fp: len(v) for fp, v in sorted(by_fp.items())},
        "replays": [p for _, p, _, _, _ in reported],
        "tree": repo_src(),
    }
    if hasattr(mod, "extra_coverage"):
        cov.update(mod.extra_coverage(agg))
    ev = {
        "property_id": pid,
        "tier": a.tier,
        "seed": base,
        "level": "exploration",
        "coverage": cov,
        "assumptions": ASSUMPTIONS + list(getattr(mod, "ASSUMPTIONS", [])),
        "wall_s": round(wall, 2),
        "violations": len(by_fp),
    }
    problems = validate_evidence(ev)
    if problems:
        raise RuntimeError("evidence does not satisfy the schema: " + "; ".join(problems))
    d = os.path.join(VERIF_DIR, "evidence")
    os.makedirs(d, exist_ok=True)
    tmp = os.path.join(d, f".{pid}.json.tmp")
    with open(tmp, "w") as f:
        json.dump(ev, f, indent=1, sort_keys=True)
        f.write("\n")
    os.replace(tmp, os.path.join(d, f"{pid}.json"))


def validate_evidence(ev):
    """The required part of /root/.vp/EVIDENCE.schema.json for level 'exploration' (no jsonschema in /venv)."""
    p = []
    for k in ("property_id", "tier", "seed", "level", "coverage", "wall_s"):
        if k not in ev:
            p.append(f"missing {k}")
    c = ev.get("coverage", {})
    if not (isinstance(c.get("evaluations"), int) and c["evaluations"] >= 1):
        p.append("coverage.evaluations < 1")
    if not (isinstance(c.get("distinct_nontrivial"), int) and c["distinct_nontrivial"] >= 2):
        p.append("coverage.distinct_nontrivial < 2")
    if not isinstance(c.get("rule"), str):
        p.append("coverage.rule missing")
    if not (isinstance(c.get("samples"), list) and len(c["samples"]) >= 1):
        p.append("coverage.samples empty")
    if ev.get("tier") not in ("quick", "thorough"):
        p.append("tier")
    if not isinstance(ev.get("seed"), int):
        p.append("seed")
    return p
