"""Discrete-event stand-in for the Tk shell of pyOMA2's picking dialog.

Real: SelFromPlot, its handlers, matplotlib Figure/Axes/transforms, MouseEvent/KeyEvent and the
canvas CallbackRegistry, stab_plot / CMIF_plot.  Stub: the toolkit shell only - FakeTk (Tk, Menu,
messagebox), a canvas derived from the real FigureCanvasAgg, a no-op toolbar, and a Figure whose
savefig() goes to the simulated disk.  `FakeRoot.mainloop()` IS the simulator's event pump: it asks
the driver for the next event, delivers it and returns when the dialog quits.
"""
import io

from matplotlib.backend_bases import KeyEvent, MouseEvent, ResizeEvent
from matplotlib.backends.backend_agg import FigureCanvasAgg
from matplotlib.figure import Figure

CUR = {"drv": None}  # the driver of the dialog in flight (one per process at a time)


class _Widget:
    def pack(self, *a, **k):
        pass

    def __getattr__(self, n):  # any other widget call is a no-op
        return lambda *a, **k: None


class SimCanvas(FigureCanvasAgg):
    def __init__(self, figure=None, master=None):
        super().__init__(figure)
        self._idle_draw = False
        self._master = master
        d = CUR["drv"]
        if d is not None:
            d.canvas = self

    def get_tk_widget(self):
        return _Widget()

    def draw_idle(self, *a, **k):
        self._idle_draw = True

    def flush_idle(self):
        if self._idle_draw:
            self._idle_draw = False
            self.figure.draw_without_rendering()


class SimToolbar:
    def __init__(self, canvas=None, window=None, *a, **k):
        pass

    def update(self):
        pass


class SimFigure(Figure):
    """Real Figure; only the file target of savefig is simulated."""

    def savefig(self, fname, *a, **k):
        d = CUR["drv"]
        if d is None:
            return super().savefig(fname, *a, **k)
        d.on_savefig(self, str(fname))


class FakeMenu:
    def __init__(self, parent=None, *a, **k):
        self.parent = parent

    def add_command(self, label=None, command=None, **k):
        d = CUR["drv"]
        if d is not None and label is not None:
            d.commands[label] = command

    def add_cascade(self, *a, **k):
        pass

    def add_separator(self, *a, **k):
        pass


class FakeRoot:
    def __init__(self, *a, **k):
        self.protocols = {}
        self.quit_called = False
        self.destroyed = False
        d = CUR["drv"]
        if d is not None:
            d.root = self

    def title(self, *a):
        pass

    def config(self, **k):
        pass

    configure = config

    def protocol(self, name, fn):
        self.protocols[name] = fn

    def quit(self):
        self.quit_called = True

    def destroy(self):
        self.destroyed = True

    def mainloop(self):
        d = CUR["drv"]
        if d is None:
            return
        d.pump(self)

    def __getattr__(self, n):
        return lambda *a, **k: None


class _MessageBox:
    @staticmethod
    def showinfo(*a, **k):
        d = CUR["drv"]
        if d is not None:
            d.infos += 1

    showwarning = showerror = showinfo


class FakeTk:
    """Stands for the `tk` module object inside pyoma2.support.sel_from_plot."""

    Tk = FakeRoot
    Menu = FakeMenu
    messagebox = _MessageBox

    def __getattr__(self, n):  # pragma: no cover
        raise AttributeError(n)


class FakeOS:
    """`os` as seen by save_this_figure: directory state lives in the driver."""

    class _Path:
        @staticmethod
        def exists(p):
            d = CUR["drv"]
            return p in d.dirs if d else False

        @staticmethod
        def join(*a):
            return "/".join(a)

    path = _Path()

    @staticmethod
    def mkdir(p, *a, **k):
        d = CUR["drv"]
        if d is not None:
            d.dirs.add(p)

    makedirs = mkdir


class FakeGlob:
    @staticmethod
    def glob(pat):
        d = CUR["drv"]
        if d is None:
            return []
        prefix = pat.split("*")[0]
        return sorted(f for f in d.saved if f.startswith(prefix))


def install(sfp_module):
    """Rebind the toolkit names inside pyoma2.support.sel_from_plot (idempotent)."""
    sfp_module.tk = FakeTk()
    sfp_module.FigureCanvasTkAgg = SimCanvas
    sfp_module.NavigationToolbar2Tk = SimToolbar
    sfp_module.Figure = SimFigure
    sfp_module.os = FakeOS()
    sfp_module.glob = FakeGlob()


# -------------------------------------------------------------------------------------------------
# event delivery helpers (used by the driver's pump)
# -------------------------------------------------------------------------------------------------
def make_mouse(canvas, name, px, py, button=None, mods=(), step=0, dblclick=False):
    kw = {}
    try:
        ev = MouseEvent(name, canvas, px, py, button=button, modifiers=frozenset(mods), step=step, dblclick=dblclick)
    except TypeError:  # older signature without modifiers
        ev = MouseEvent(name, canvas, px, py, button=button, step=step, dblclick=dblclick, **kw)
    return ev


def make_key(canvas, name, key, px=0, py=0):
    return KeyEvent(name, canvas, key, px, py)


def deliver(canvas, ev):
    canvas.callbacks.process(ev.name, ev)


def resize(canvas, w_in, h_in):
    canvas.figure.set_size_inches(w_in, h_in, forward=False)
    ev = ResizeEvent("resize_event", canvas)
    canvas.callbacks.process("resize_event", ev)
    canvas.draw_idle()


def render_png(fig) -> bytes:
    buf = io.BytesIO()
    Figure.savefig(fig, buf, format="png", dpi=30)
    return buf.getvalue()
