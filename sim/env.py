"""Process environment for every simulated run.

Must be imported (and `setup()` called) BEFORE numpy / matplotlib / pyoma2 are
imported: it pins every scheduler the simulator does not own (BLAS threads),
silences clocks that only feed progress bars, and selects the code under test.
"""
import os
import sys

VERIF_DIR = os.path.dirname(os.path.dirname(os.path.abspath(__file__)))

_PINNED = {
    "OPENBLAS_NUM_THREADS": "1",
    "OMP_NUM_THREADS": "1",
    "MKL_NUM_THREADS": "1",
    "NUMEXPR_NUM_THREADS": "1",
    "VECLIB_MAXIMUM_THREADS": "1",
    "TQDM_DISABLE": "1",
    "PYOMA_LOG_LEVEL": "CRITICAL",
    "MPLBACKEND": "Agg",
    "PYTHONWARNINGS": "ignore",
}


def repo_src() -> str:
    return os.environ.get("VERIF_REPO_SRC", "/repo/src")


def setup() -> None:
    for k, v in _PINNED.items():
        os.environ[k] = v
    src = repo_src()
    if not os.path.isdir(os.path.join(src, "pyoma2")):
        sys.stderr.write(f"HARNESS-ERROR no pyoma2 package under {src}\n")
        raise SystemExit(2)
    # the code under test comes from the working tree, first on the path
    sys.path[:] = [p for p in sys.path if os.path.abspath(p or ".") != os.path.abspath(src)]
    sys.path.insert(0, src)
    if VERIF_DIR not in sys.path:
        sys.path.insert(1, VERIF_DIR)
    sys.dont_write_bytecode = True
    import warnings

    warnings.simplefilter("ignore")


def import_target():
    """Import pyoma2 from the selected tree and assert that it really came from there."""
    import pyoma2  # noqa

    got = os.path.dirname(os.path.dirname(os.path.abspath(pyoma2.__file__)))
    if os.path.realpath(got) != os.path.realpath(repo_src()):
        sys.stderr.write(
            f"HARNESS-ERROR pyoma2 imported from {got}, expected {repo_src()}\n"
        )
        raise SystemExit(2)
    import logging

    logging.getLogger("pyoma2").setLevel(logging.CRITICAL + 1)
    return pyoma2


_LOG = {}


def set_log_debug(on: bool) -> None:
    """One configuration dimension of a history: the package logger at DEBUG (what PYOMA_LOG_LEVEL=DEBUG gives) or
    silent. Results must not depend on it."""
    import logging

    lg = logging.getLogger("pyoma2")
    if "handler" not in _LOG:
        class H(logging.Handler):
            def emit(self, record):
                try:
                    self.format(record)
                except Exception:  # logging never lets a formatting error reach the caller
                    pass

        _LOG["handler"] = H(level=logging.DEBUG)
        lg.addHandler(_LOG["handler"])
    lg.setLevel(logging.DEBUG if on else logging.CRITICAL + 1)
