"""Canonical forms, content hashes and the event log.

Nothing here draws from a PRNG or reads a clock; iteration is always sorted.
"""
import hashlib
import json

import numpy as np


def h_bytes(b: bytes) -> str:
    return hashlib.sha256(b).hexdigest()[:16]


def h_array(a) -> str:
    a = np.asarray(a)
    if a.dtype == object:
        return h_obj([canon(x) for x in a.ravel().tolist()])
    c = np.ascontiguousarray(a)
    m = hashlib.sha256()
    m.update(str(c.dtype).encode())
    m.update(str(c.shape).encode())
    m.update(c.tobytes())
    return m.hexdigest()[:16]


def canon(o):
    """JSON-able canonical form; arrays are replaced by (dtype, shape, hash)."""
    if o is None or isinstance(o, (bool, str)):
        return o
    if isinstance(o, (int, np.integer)):
        return int(o)
    if isinstance(o, (float, np.floating)):
        return repr(float(o))
    if isinstance(o, (complex, np.complexfloating)):
        return ["c", repr(float(o.real)), repr(float(o.imag))]
    if isinstance(o, np.ndarray):
        return ["nd", str(o.dtype), list(o.shape), h_array(o)]
    if isinstance(o, (list, tuple)):
        return [canon(x) for x in o]
    if isinstance(o, dict):
        return {str(k): canon(o[k]) for k in sorted(o, key=str)}
    # pydantic models (results / run parameters)
    fields = getattr(type(o), "model_fields", None)
    if fields is not None:
        return {
            "__model__": type(o).__name__,
            **{k: canon(getattr(o, k, None)) for k in sorted(fields)},
        }
    if isinstance(o, (set, frozenset)):
        return sorted(canon(x) for x in o)
    return ["repr", type(o).__name__, repr(o)]


def h_obj(o) -> str:
    return h_bytes(json.dumps(canon(o), sort_keys=True).encode())


def field_hashes(model) -> dict:
    """Per-field content hash of a pydantic model (or None)."""
    if model is None:
        return {}
    fields = getattr(type(model), "model_fields", None)
    if fields is None:
        return {"__repr__": h_obj(model)}
    return {k: h_obj(getattr(model, k, None)) for k in sorted(fields)}


class EventLog:
    """Append-only log of canonical records; its sha256 is the run digest."""

    def __init__(self, seed):
        self.records = []
        self.add({"seed": seed})

    def add(self, rec: dict) -> None:
        self.records.append(json.dumps(canon(rec), sort_keys=True))

    def digest(self) -> str:
        m = hashlib.sha256()
        for r in self.records:
            m.update(r.encode())
            m.update(b"\n")
        return m.hexdigest()[:24]

    def dump(self):
        return [json.loads(r) for r in self.records]
