"""Mergeable aggregates of per-run measurements (counters, distinct sets, capped samples)."""


class Agg:
    def __init__(self, max_samples=6):
        self.n = {}  # counter name -> int
        self.sets = {}  # name -> set of str
        self.samples = []
        self.max_samples = max_samples

    def inc(self, name, by=1):
        self.n[name] = self.n.get(name, 0) + by

    def add(self, name, item):
        self.sets.setdefault(name, set()).add(item)

    def sample(self, s):
        if len(self.samples) < self.max_samples:
            self.samples.append(s)

    def merge(self, other: "Agg"):
        for k, v in other.n.items():
            self.n[k] = self.n.get(k, 0) + v
        for k, v in other.sets.items():
            self.sets.setdefault(k, set()).update(v)
        for s in other.samples:
            self.sample(s)

    def to_wire(self):
        return {
            "n": self.n,
            "sets": {k: sorted(v) for k, v in self.sets.items()},
            "samples": self.samples,
        }

    @classmethod
    def from_wire(cls, w, max_samples=6):
        a = cls(max_samples)
        a.n = dict(w["n"])
        a.sets = {k: set(v) for k, v in w["sets"].items()}
        a.samples = list(w["samples"])
        return a

    def group(self, prefix):
        """Counters whose name starts with `prefix`, prefix stripped, sorted."""
        return {k[len(prefix):]: self.n[k] for k in sorted(self.n) if k.startswith(prefix)}
