"""Batch execution on a process pool, minimisation, replay files, findings, evidence."""
import concurrent.futures as cf
import copy
import faulthandler
import importlib
import json
import multiprocessing as mp
import os
import subprocess
import sys
import time

from sim.agg import Agg
from sim.env import VERIF_DIR

CHECK_MODULES = {
    "C14": "checks.c14_preproc",
    "C15": "checks.c15_runs",
    "C16": "checks.c16_picking",
}

PER_CHUNK_CAP_S = 300


class HarnessError(Exception):
    pass


def load_check(pid):
    return importlib.import_module(CHECK_MODULES[pid])


# ---------------------------------------------------------------------------------------------
# known findings
# ---------------------------------------------------------------------------------------------
def load_findings():
    p = os.path.join(VERIF_DIR, "known_findings.json")
    if not os.path.exists(p):
        return {"known": [], "fixed": []}
    with open(p) as f:
        return json.load(f)


def known_fingerprints(pid):
    return sorted(
        e["fingerprint"] for e in load_findings().get("known", []) if e["property"] == pid
    )


# ---------------------------------------------------------------------------------------------
# workers
# ---------------------------------------------------------------------------------------------
_W = {}


def _winit(pid):
    mod = load_check(pid)
    mod.init_worker()
    _W["mod"] = mod


def _summarise(mod, r, agg: Agg, keep_log=False):
    agg.inc("runs")
    agg.inc("steps", r.get("steps", 0))
    for k, v in r["counters"].items():
        agg.inc(k, v)
    agg.add("signatures", r["signature"])
    if r.get("nontrivial"):
        agg.add("nontrivial_signatures", r["signature"])
        agg.inc("nontrivial_runs")
    for s in r.get("states", []):
        agg.add("states", s)
    for s in r.get("opseq3", []):
        agg.add("opseq3", s)
    for k, items in r.get("sets", {}).items():
        for it in items:
            agg.add(k, it)
    for kf in r.get("known", []):
        agg.inc("known." + kf["fingerprint"])


def _wchunk(args):
    pid, seeds, tier, known, want_samples = args
    faulthandler.dump_traceback_later(PER_CHUNK_CAP_S, exit=True)
    mod = _W["mod"]
    agg = Agg()
    bad = []
    digests = {}
    seen = _W.setdefault("seen", [])
    for s in seeds:
        r = mod.run_case(s, tier=tier, known=known)
        _summarise(mod, r, agg)
        digests[s] = r["digest"]
        if r["violations"]:
            bad.append({"seed": s, "world": r["world"], "ops": r["ops"], "violations": r["violations"],
                        "digest": r["digest"], "pre_seeds": list(seen)[-400:] if len(bad) < 2 else [],
                        **({"extra": r["extra"]} if "extra" in r else {})})
        seen.append(s)
        if want_samples and len(agg.samples) < 3 and (r.get("nontrivial") or s == seeds[0]):
            agg.sample({"seed": s, "world": r["world"], "ops": r["ops"], "signature": r["signature"],
                        "known": [k["fingerprint"] for k in r.get("known", [])][:3]})
        if r.get("known"):
            for kf in r["known"]:
                key = "knownex." + kf["fingerprint"]
                if key not in agg.sets:
                    agg.add(key, json.dumps({"seed": s, "step": kf["step"], "detail": kf["detail"]}))
    faulthandler.cancel_dump_traceback_later()
    return agg.to_wire(), bad, digests


def run_batch(pid, seeds, tier, nproc, wall_cap_s, chunk=8, want_digests=False):
    """Run all seeds (stopping early only at the wall cap). Returns (Agg, bad cases, info)."""
    known = known_fingerprints(pid)
    t0 = time.time()
    agg = Agg()
    bad = []
    digests = {}
    chunks = [seeds[i:i + chunk] for i in range(0, len(seeds), chunk)]
    done_chunks = 0
    capped = False
    ctx = mp.get_context("fork")
    with cf.ProcessPoolExecutor(max_workers=nproc, mp_context=ctx, initializer=_winit, initargs=(pid,)) as ex:
        pending = {}
        it = iter(enumerate(chunks))
        # keep the queue short so a wall cap takes effect promptly
        def feed():
            while len(pending) < nproc * 2:
                try:
                    i, c = next(it)
                except StopIteration:
                    return
                pending[ex.submit(_wchunk, (pid, c, tier, known, i < nproc))] = i
        feed()
        while pending:
            done, _ = cf.wait(list(pending), timeout=5, return_when=cf.FIRST_COMPLETED)
            for f in done:
                pending.pop(f)
                try:
                    w, b, d = f.result()
                except cf.process.BrokenProcessPool as e:
                    raise HarnessError(f"worker died (hang cap {PER_CHUNK_CAP_S}s or crash): {e}")
                agg.merge(Agg.from_wire(w))
                bad.extend(b)
                if want_digests:
                    digests.update(d)
                done_chunks += 1
            if time.time() - t0 > wall_cap_s:
                capped = True
                for f in pending:
                    f.cancel()
                # running chunks finish; queued ones are dropped
                for f in list(pending):
                    if f.cancelled():
                        pending.pop(f)
                it = iter(())
            if not capped:
                feed()
    info = {"wall_s": time.time() - t0, "capped": capped, "chunks_done": done_chunks, "chunks": len(chunks)}
    bad.sort(key=lambda b: b["seed"])
    return agg, bad, (info, digests)


# ---------------------------------------------------------------------------------------------
# minimisation (ddmin over operations + check-specific simplifications)
# ---------------------------------------------------------------------------------------------
def _key(v):
    return v["fingerprint"]


def minimise(mod, case, target_fp, budget_s=60, known=()):
    """Shrink `case` while a violation with fingerprint `target_fp` persists."""
    t0 = time.time()
    tries = 0

    def fails(c):
        nonlocal tries
        tries += 1
        try:
            r = mod.run_case(case.get("seed", 0), case=c, known=known)
        except Exception:
            return False
        return any(_key(v) == target_fp for v in r["violations"])

    cur = {"world": copy.deepcopy(case["world"]), "ops": copy.deepcopy(case["ops"])}
    if "extra" in case:
        cur["extra"] = copy.deepcopy(case["extra"])
    if not fails(cur):
        return None, tries
    # truncate after the violating step first
    changed = True
    while changed and time.time() - t0 < budget_s:
        changed = False
        # ddmin on ops
        n = 2
        ops = cur["ops"]
        while len(ops) >= 1 and time.time() - t0 < budget_s:
            size = max(1, len(ops) // n)
            reduced = False
            for start in range(0, len(ops), size):
                cand_ops = ops[:start] + ops[start + size:]
                cand = {**cur, "ops": cand_ops}
                if hasattr(mod, "fix_ops"):
                    cand = mod.fix_ops(cand)
                if fails(cand):
                    cur = cand
                    ops = cur["ops"]
                    n = max(n - 1, 2)
                    reduced = changed = True
                    break
            if not reduced:
                if size == 1:
                    break
                n = min(len(ops), n * 2)
        # check-specific simplifications, greedy to a fixed point
        progress = True
        while progress and time.time() - t0 < budget_s:
            progress = False
            for cand in mod.shrink_candidates(cur):
                cand = {**cur, **cand}
                if fails(cand):
                    cur = cand
                    progress = changed = True
                    break
    return cur, tries


def _case_doc(pid, case, fp):
    doc = {"property": pid, "fingerprint": fp, "seed": case.get("seed", 0), "world": case["world"], "ops": case["ops"]}
    for k in ("extra", "pre_seeds", "tier"):
        if k in case:
            doc[k] = case[k]
    return doc


def fresh_eval(pid, case, fp, tmpdir, tag):
    """Does `case` violate `fp` when executed alone in a fresh interpreter?"""
    path = os.path.join(tmpdir, f"cand-{tag}.json")
    with open(path, "w") as f:
        json.dump(_case_doc(pid, case, fp), f)
    env = dict(os.environ, PYTHONHASHSEED="777")
    try:
        p = subprocess.run([sys.executable, os.path.join(VERIF_DIR, "check"), pid, "--replay", path],
                           env=env, capture_output=True, text=True, timeout=900)
    except subprocess.TimeoutExpired:
        return False
    return p.returncode == 1 and "VIOLATION" in p.stdout


def minimise_fresh(mod, pid, case, fp, budget_s=120, nproc=16):
    """ddmin where every candidate runs in its own fresh interpreter (candidates of a round in parallel).
    Used when the code under test keeps state between histories, which makes in-process shrinking unsound."""
    import tempfile
    from concurrent.futures import ThreadPoolExecutor

    t0 = time.time()
    tries = 0
    with tempfile.TemporaryDirectory(prefix="verif-min-") as td, ThreadPoolExecutor(max_workers=nproc) as ex:
        def batch(cands):
            nonlocal tries
            cands = cands[: 2 * nproc]
            tries += len(cands)
            futs = [ex.submit(fresh_eval, pid, c, fp, td, f"{tries}-{i}") for i, c in enumerate(cands)]
            for c, f in zip(cands, futs):
                if f.result():
                    return c
            return None

        cur = copy.deepcopy(case)
        if batch([cur]) is None:
            return None, tries
        for key in ("pre_seeds", "ops"):
            if not cur.get(key):
                continue
            n = 2
            while time.time() - t0 < budget_s and len(cur[key]) >= 1:
                items = cur[key]
                size = max(1, len(items) // n)
                cands = [{**cur, key: items[:st] + items[st + size:]} for st in range(0, len(items), size)]
                got = batch(cands)
                if got is not None:
                    cur = got
                    n = max(n - 1, 2)
                    continue
                if size == 1:
                    break
                n = min(len(items), n * 2)
        while time.time() - t0 < budget_s:
            cands = [{**cur, **c} for c in mod.shrink_candidates(cur)]
            got = batch(cands) if cands else None
            if got is None:
                break
            cur = got
    return cur, tries


def write_replay(pid, case, viol, seed, digest):
    d = os.path.join(os.environ.get("VERIF_REPLAY_DIR") or os.path.join(VERIF_DIR, "replays"), pid)
    os.makedirs(d, exist_ok=True)
    safe = viol["fingerprint"].replace("/", "_").replace("@", "-").replace(":", "_").replace(" ", "")
    path = os.path.join(d, f"{pid}-seed{seed}-{safe}.json")
    doc = {
        "property": pid, "oracle": viol["oracle"], "fingerprint": viol["fingerprint"], "seed": seed,
        "world": case["world"], "ops": case["ops"], "detail": viol["detail"], "step": viol["step"],
        "digest": digest,
    }
    for k in ("extra", "pre_seeds", "tier"):
        if k in case:
            doc[k] = case[k]
    with open(path, "w") as f:
        json.dump(doc, f, indent=1, sort_keys=True)
        f.write("\n")
    return path


def replay_file(pid, path, quiet=False):
    """Execute a replay file verbatim in this process. Returns (reproduced, result)."""
    with open(path) as f:
        doc = json.load(f)
    mod = load_check(pid)
    mod.init_worker()
    case = {"world": doc["world"], "ops": doc["ops"], "seed": doc.get("seed", 0)}
    if "extra" in doc:
        case["extra"] = doc["extra"]
    # histories that ran earlier in the same (simulated) process, regenerated from their seeds
    for ps in doc.get("pre_seeds", []):
        mod.run_case(ps, tier=doc.get("tier", "quick"), known=known_fingerprints(pid))
    r = mod.run_case(doc.get("seed", 0), case=case, known=known_fingerprints(pid))
    fps = [v["fingerprint"] for v in r["violations"]]
    ok = doc["fingerprint"] in fps
    same_digest = r["digest"] == doc.get("digest") or "digest" not in doc
    return ok, same_digest, r


def fresh_replay(pid, path):
    """Re-verify a replay in a fresh interpreter under another hash seed. exit 1 == reproduced."""
    env = dict(os.environ)
    env["PYTHONHASHSEED"] = "12345"
    p = subprocess.run(
        [sys.executable, os.path.join(VERIF_DIR, "check"), pid, "--replay", path, "--strict-digest"],
        env=env, capture_output=True, text=True, timeout=600,
    )
    return p.returncode == 1 and "VIOLATION" in p.stdout, p.stdout + p.stderr
