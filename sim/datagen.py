"""Deterministic records: random response of a few lightly damped resonators.

One integer -> one array, bit for bit (numpy Generator(PCG64(seed)), scipy lfilter).
"""
import numpy as np
from scipy import signal


def resonator_record(
    seed: int,
    ndat: int,
    nch: int,
    fs: float,
    nmodes: int = 2,
    noise: float = 0.02,
    trend: bool = False,
    fmax_frac: float = 0.35,
) -> np.ndarray:
    """(ndat x nch) response of `nmodes` white-noise-driven SDOF resonators seen through
    random real mode shapes, plus a little sensor noise (and optionally offset + drift)."""
    rng = np.random.Generator(np.random.PCG64(int(seed) & 0xFFFFFFFFFFFF))
    nyq = fs / 2.0
    # well separated frequencies in (0.06, fmax_frac) * fs
    base = np.linspace(0.08, fmax_frac, nmodes + 2)[1:-1] if nmodes > 1 else np.array([0.17])
    freqs = fs * (base + rng.uniform(-0.01, 0.01, size=nmodes))
    freqs = np.clip(freqs, 0.04 * fs, 0.9 * nyq)
    zetas = rng.uniform(0.01, 0.03, size=nmodes)
    shapes = rng.uniform(0.3, 1.0, size=(nmodes, nch)) * rng.choice([-1.0, 1.0], size=(nmodes, nch))
    burn = 200
    y = np.zeros((ndat, nch))
    for m in range(nmodes):
        w = 2 * np.pi * freqs[m] / fs
        r = np.exp(-zetas[m] * w)
        a = [1.0, -2 * r * np.cos(w * np.sqrt(1 - zetas[m] ** 2)), r * r]
        e = rng.standard_normal(ndat + burn)
        q = signal.lfilter([1.0], a, e)[burn:]
        q = q / (np.std(q) + 1e-12)
        y += np.outer(q, shapes[m])
    y += noise * rng.standard_normal((ndat, nch))
    if trend:
        t = np.arange(ndat) / max(ndat - 1, 1)
        off = rng.uniform(-2, 2, size=nch)
        slope = rng.uniform(-3, 3, size=nch)
        y = y + off[None, :] + np.outer(t, slope)
    return np.ascontiguousarray(y, dtype=np.float64)


def record_info(seed, ndat, nch, fs, nmodes=2, fmax_frac=0.35):
    """The modal frequencies used by `resonator_record` for the same arguments."""
    rng = np.random.Generator(np.random.PCG64(int(seed) & 0xFFFFFFFFFFFF))
    nyq = fs / 2.0
    base = np.linspace(0.08, fmax_frac, nmodes + 2)[1:-1] if nmodes > 1 else np.array([0.17])
    freqs = fs * (base + rng.uniform(-0.01, 0.01, size=nmodes))
    return np.clip(freqs, 0.04 * fs, 0.9 * nyq)
