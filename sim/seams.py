"""Seams taken from outside the code under test (no hook in /repo).

* FaultPlan     - "the k-th call through seam S during this operation raises E"
* CallSeam      - counting / raising wrapper around one callable bound to a module attribute
* NumProxy      - transparent proxy for a module object (numpy, scipy.linalg, scipy.signal):
                  forwards everything to the real library, counts calls made by pyOMA2's own
                  call sites and can make call #k raise
* SimFS         - in-memory file system behind `pyoma2.functions.gen.open`
"""
import builtins
import errno
import io
import os
import types

import numpy as np

EXC = {
    "ValueError": ValueError,
    "MemoryError": MemoryError,
    "LinAlgError": np.linalg.LinAlgError,
    "OSError": OSError,
    "RuntimeError": RuntimeError,
    "KeyboardInterrupt": KeyboardInterrupt,  # cancellation: Ctrl-C in a notebook session that then carries on
}


class FaultPlan:
    """Faults armed for the operation in flight. All counters are per operation."""

    def __init__(self):
        self.reset()
        self.fired_total = {}  # kind -> count over the whole run

    def reset(self):
        self.armed = []  # list of dict(site, call, exc, kind)
        self.counts = {}  # site -> calls seen in this operation
        self.fired = []  # faults fired in this operation

    def arm(self, site, call, exc, kind):
        self.armed.append({"site": site, "call": int(call), "exc": exc, "kind": kind})

    def tick(self, site, detail=None):
        n = self.counts.get(site, 0)
        self.counts[site] = n + 1
        for f in self.armed:
            if f["site"] == site and f["call"] == n and not f.get("done"):
                f["done"] = True
                self.fired.append({**f, "detail": detail})
                self.fired_total[f["kind"]] = self.fired_total.get(f["kind"], 0) + 1
                e = f["exc"]
                if e == "OSError":
                    raise OSError(errno.ENOSPC, "simulated: no space left on device")
                raise EXC[e](f"simulated fault at {site}#{n}")


class CallSeam:
    def __init__(self, plan: FaultPlan, site: str, real):
        self.plan, self.site, self.real = plan, site, real
        self.__name__ = getattr(real, "__name__", site)

    def __call__(self, *a, **k):
        self.plan.tick(self.site)
        return self.real(*a, **k)


# ---------------------------------------------------------------------------------------------
# numpy / scipy proxy
# ---------------------------------------------------------------------------------------------
_LINALG_FAIL = {"svd", "inv", "pinv", "eig", "eigvals", "qr", "solve", "lstsq", "eigh", "cholesky"}


class NumProxy(types.ModuleType):
    """Stands in for a module inside pyOMA2's function modules.

    Attribute access returns the real object, except that plain functions / ufuncs are wrapped
    in a counting shim (`site` = one shared counter "num"); sub-modules are wrapped recursively.
    Classes, constants and dtypes pass through untouched so isinstance / dtype logic is unchanged.
    """

    def __init__(self, real, plan: FaultPlan, path: str):
        super().__init__(getattr(real, "__name__", path))
        object.__setattr__(self, "_real", real)
        object.__setattr__(self, "_plan", plan)
        object.__setattr__(self, "_path", path)
        object.__setattr__(self, "_cache", {})

    def __getattr__(self, name):
        real = object.__getattribute__(self, "_real")
        cache = object.__getattribute__(self, "_cache")
        if name in cache:
            return cache[name]
        val = getattr(real, name)
        plan = object.__getattribute__(self, "_plan")
        path = object.__getattribute__(self, "_path")
        if isinstance(val, types.ModuleType):
            out = NumProxy(val, plan, f"{path}.{name}")
        elif isinstance(val, type):
            out = val
        elif callable(val):
            out = _wrap(val, plan, f"{path}.{name}", name)
        else:
            out = val
        cache[name] = out
        return out

    def __setattr__(self, name, value):  # pragma: no cover - pyOMA2 never assigns into numpy
        setattr(object.__getattribute__(self, "_real"), name, value)

    def __dir__(self):
        return dir(object.__getattribute__(self, "_real"))


def _wrap(fn, plan, qual, name):
    def shim(*a, **k):
        plan.tick("num", qual)
        return fn(*a, **k)

    shim.__name__ = getattr(fn, "__name__", name)
    shim.__wrapped__ = fn
    shim._qual = qual
    return shim


def exc_for_site(qual: str) -> str:
    leaf = qual.rsplit(".", 1)[-1]
    if leaf in _LINALG_FAIL:
        return "LinAlgError"
    return "MemoryError"


# ---------------------------------------------------------------------------------------------
# simulated file system
# ---------------------------------------------------------------------------------------------
class SimCrash(BaseException):
    """The simulated process dies here. Only SimFS content survives."""


class _SimWriter(io.RawIOBase):
    def __init__(self, fs, path):
        super().__init__()
        self.fs, self.path = fs, path
        self.buf = bytearray()
        self._closed = False
        fs.files[path] = b""  # open(...,'wb') truncates durably at once

    def writable(self):
        return True

    def fileno(self):
        return 10**6 + (id(self) % 10**6)

    def write(self, b):
        b = bytes(b)
        fs = self.fs
        fs.plan.tick("fs.write")
        if fs.crash_after is not None:
            room = fs.crash_after - fs.written
            if len(b) >= room:
                # the process dies inside this write: only a prefix reaches the disk
                self.buf += b[: max(room, 0)]
                fs.files[self.path] = bytes(self.buf)
                fs.written += max(room, 0)
                fs.crashed = True
                raise SimCrash(f"crash after {fs.crash_after} bytes of {self.path}")
        self.buf += b
        fs.written += len(b)
        if fs.eager:
            fs.files[self.path] = bytes(self.buf)
        return len(b)

    def flush(self):
        if not self._closed:
            self.fs.files[self.path] = bytes(self.buf)

    def close(self):
        if self._closed:
            return
        self._closed = True
        try:
            self.fs.plan.tick("fs.close")
        finally:
            # whatever was written is on the disk once the descriptor is gone, error or not
            self.fs.files[self.path] = bytes(self.buf)
            super().close()

    @property
    def closed(self):
        return self._closed


def sim_path(p):
    """Simulated paths carry the marker "sim:"; code under test may have made them absolute or resolved them
    (os.path.abspath/realpath prepend the working directory) - the part from the marker on identifies the file."""
    try:
        p = os.fspath(p)
    except TypeError:
        return None
    if isinstance(p, bytes):
        p = p.decode("utf-8", "replace")
    if isinstance(p, str) and "sim:" in p:
        return "sim:" + p.split("sim:", 1)[1]
    return None


class SimOS(types.ModuleType):
    """`os` as seen by pyoma2.functions.gen, should a future version use it around saving
    (write to a temporary file, fsync, rename): "sim:" paths live in the SimFS, everything else is real."""

    def __init__(self, real, fs):
        super().__init__("os")
        object.__setattr__(self, "_real", real)
        object.__setattr__(self, "_fs", fs)
        object.__setattr__(self, "path", _SimOSPath(real.path, fs))

    def __getattr__(self, name):
        return getattr(object.__getattribute__(self, "_real"), name)

    def replace(self, src, dst, *a, **k):
        s_, d_ = sim_path(src), sim_path(dst)
        if s_ is not None or d_ is not None:
            fs = self._fs
            fs.plan.tick("fs.rename")
            if s_ not in fs.files:
                raise FileNotFoundError(errno.ENOENT, "simulated: no such file", src)
            fs.files[d_] = fs.files.pop(s_)
            return None
        real = (getattr(self._fs, "_saved", None) or {}).get("os.replace") or self._real.replace
        return real(src, dst, *a, **k)

    rename = replace

    def remove(self, p, *a, **k):
        p_ = sim_path(p)
        if p_ is not None:
            if p_ not in self._fs.files:
                raise FileNotFoundError(errno.ENOENT, "simulated: no such file", p)
            del self._fs.files[p_]
            return None
        real = (getattr(self._fs, "_saved", None) or {}).get("os.remove") or self._real.remove
        return real(p, *a, **k)

    unlink = remove

    def fsync(self, fd):
        if isinstance(fd, int) and fd >= 10**6:
            return None
        real = (getattr(self._fs, "_saved", None) or {}).get("os.fsync") or self._real.fsync
        return real(fd)


class _SimOSPath:
    def __init__(self, real, fs):
        self._real, self._fs = real, fs

    def __getattr__(self, name):
        return getattr(self._real, name)

    def exists(self, p):
        p_ = sim_path(p)
        if p_ is not None:
            return p_ in self._fs.files
        return self._real.exists(p)

    isfile = exists

    def lexists(self, p):
        return self.exists(p)

    def isdir(self, p):
        p_ = sim_path(p)
        if p_ is not None:
            return p_.rstrip("/") in ("sim:", "sim:/") or p_.endswith("/")
        return self._real.isdir(p)

    def getsize(self, p):
        p_ = sim_path(p)
        if p_ is not None:
            if p_ not in self._fs.files:
                raise FileNotFoundError(errno.ENOENT, "simulated: no such file", p)
            return len(self._fs.files[p_])
        return self._real.getsize(p)


class _SimReader(io.BytesIO):
    def __init__(self, fs, data):
        super().__init__(data)
        self.fs = fs

    def read(self, *a):
        self.fs.plan.tick("fs.read")
        return super().read(*a)

    def readinto(self, b):
        self.fs.plan.tick("fs.read")
        return super().readinto(b)

    def readline(self, *a):
        self.fs.plan.tick("fs.read")
        return super().readline(*a)


class SimFS:
    """Dictionary of path -> bytes with fault points on open / write / close / read."""

    def __init__(self, plan: FaultPlan):
        self.plan = plan
        self.files = {}
        self.crash_after = None  # byte budget of the save in flight, or None
        self.written = 0
        self.crashed = False
        self.eager = False
        self.opens = 0

    # -- optional process-wide activation for the duration of one save/load operation -------------------
    # pyoma2.functions.gen.open (and gen.os when present) are rebound permanently; an implementation that reaches
    # the disk through pathlib / io instead would bypass them, so while a persistence operation is in flight the
    # same simulated disk is also put behind builtins.open, io.open and the few os functions pathlib uses.
    def activate(self):
        import io as _io

        if getattr(self, "_saved", None):
            return
        simos = SimOS(os, self)
        real_stat = os.stat
        fs = self

        def stat(path, *a, **k):
            sp = sim_path(path) if not isinstance(path, int) else None
            if sp is None:
                return real_stat(path, *a, **k)
            if sp not in fs.files:
                raise FileNotFoundError(errno.ENOENT, "simulated: no such file", str(path))
            n = len(fs.files[sp])
            return os.stat_result((0o100644, 0, 0, 1, 0, 0, n, 0, 0, 0))

        self._saved = {
            "builtins.open": builtins.open, "io.open": _io.open, "os.replace": os.replace, "os.rename": os.rename,
            "os.remove": os.remove, "os.unlink": os.unlink, "os.fsync": os.fsync, "os.stat": os.stat,
        }
        real_open = builtins.open

        def sim_open(path, mode="r", *a, **k):
            if not isinstance(path, int) and sim_path(path) is not None:
                return fs.open(path, mode, *a, **k)
            return real_open(path, mode, *a, **k)

        builtins.open = sim_open
        _io.open = sim_open
        os.replace = simos.replace
        os.rename = simos.replace
        os.remove = simos.remove
        os.unlink = simos.remove
        os.fsync = simos.fsync
        os.stat = stat

    def deactivate(self):
        import io as _io

        sv = getattr(self, "_saved", None)
        if not sv:
            return
        builtins.open = sv["builtins.open"]
        _io.open = sv["io.open"]
        os.replace, os.rename = sv["os.replace"], sv["os.rename"]
        os.remove, os.unlink = sv["os.remove"], sv["os.unlink"]
        os.fsync, os.stat = sv["os.fsync"], sv["os.stat"]
        self._saved = None

    def begin_op(self, crash_after=None, eager=False):
        self.crash_after = crash_after
        self.written = 0
        self.crashed = False
        self.eager = eager

    def open(self, path, mode="r", *a, **k):
        self.opens += 1
        sp = sim_path(path)
        if sp is None:
            # anything else (matplotlib fonts, ...) is not ours
            real = (getattr(self, "_saved", None) or {}).get("builtins.open", builtins.open)
            return real(path, mode, *a, **k)
        path = sp
        self.plan.tick("fs.open")
        if "w" in mode or "x" in mode:
            if "b" not in mode:
                raise ValueError("SimFS: only binary writes are simulated")
            if "x" in mode and path in self.files:
                raise FileExistsError(errno.EEXIST, "simulated: file exists", path)
            return _SimWriter(self, path)
        if path not in self.files:
            raise FileNotFoundError(errno.ENOENT, "simulated: no such file", path)
        return _SimReader(self, self.files[path])


# ---------------------------------------------------------------------------------------------
# process-global state of the package under test
# ---------------------------------------------------------------------------------------------
class Ambient:
    """Process-global state of the interpreter and of third-party libraries that numerical code can read or
    change: numpy's floating-point error handling, print options and legacy global random state, Python's global
    random state, the warnings filters, matplotlib's rcParams and the environment. `capture()` returns a token,
    `restore(token)` puts that state back."""

    @staticmethod
    def capture():
        import os as _os
        import random as _random
        import warnings as _warnings

        tok = {
            "err": np.geterr(),
            "print": np.get_printoptions(),
            "nprand": np.random.get_state(),
            "pyrand": _random.getstate(),
            "filters": list(_warnings.filters),
            "environ": dict(_os.environ),
        }
        try:
            import matplotlib as _mpl

            tok["rc"] = dict(_mpl.rcParams)
        except Exception:  # pragma: no cover
            pass
        return tok

    @staticmethod
    def restore(tok):
        import os as _os
        import random as _random
        import warnings as _warnings

        np.seterr(**tok["err"])
        po = dict(tok["print"])
        try:
            np.set_printoptions(**po)
        except TypeError:  # pragma: no cover - option names differ between numpy versions
            po.pop("override_repr", None)
            np.set_printoptions(**po)
        np.random.set_state(tok["nprand"])
        _random.setstate(tok["pyrand"])
        if _warnings.filters != tok["filters"]:
            _warnings.filters[:] = tok["filters"]
            try:
                _warnings._filters_mutated()
            except Exception:
                pass
        if dict(_os.environ) != tok["environ"]:
            for k in list(_os.environ):
                if k not in tok["environ"]:
                    del _os.environ[k]
            for k, v in tok["environ"].items():
                if _os.environ.get(k) != v:
                    _os.environ[k] = v
        if "rc" in tok:
            import matplotlib as _mpl

            if dict(_mpl.rcParams) != tok["rc"]:
                dict.clear(_mpl.rcParams)
                dict.update(_mpl.rcParams, tok["rc"])


class GlobalStateGuard:
    """Lets the *reference* execution of an algorithm see the package's module-level and class-level
    state exactly as it was right after import ("runs alone"), while the history under test keeps the
    state its own predecessors left behind. Without this, a result cached at module level (or on a class,
    or in a mutable default argument) would poison the reference in the same way as the run it is
    supposed to judge, and the comparison would pass.

    Captured: plain data attributes (None, numbers, strings, tuples, dict, list, set, ndarray) of every
    module whose name starts with the prefix and of the non-pydantic classes defined there; mutable default
    arguments of its functions; functools caches are cleared on entry (they cannot be restored)."""

    _PLAIN = (type(None), bool, int, float, complex, str, bytes, tuple, dict, list, set, frozenset, np.ndarray)

    def __init__(self, prefix="pyoma2"):
        import copy as _copy
        import sys as _sys

        self._copy = _copy
        self.prefix = prefix
        self.owners = []  # (owner object, {name: pristine deep copy})
        self.defaults = []  # (mutable default object, pristine deep copy)
        self.caches = []
        self.ambient = Ambient.capture()  # third-party / interpreter state right after import
        try:
            from pydantic import BaseModel
        except Exception:  # pragma: no cover
            BaseModel = ()
        seen_cls = set()
        for mname in sorted(m for m in _sys.modules if m == prefix or m.startswith(prefix + ".")):
            mod = _sys.modules[mname]
            if mod is None:
                continue
            self.owners.append((mod, self._plain_attrs(mod)))
            for name, val in list(vars(mod).items()):
                if isinstance(val, type) and getattr(val, "__module__", "").startswith(prefix) and val not in seen_cls:
                    seen_cls.add(val)
                    if BaseModel and isinstance(val, type) and issubclass(val, BaseModel):
                        # pydantic models: the shared default OBJECTS of the fields (a dict default is one object
                        # per class; pydantic copies it per instance, code that writes into it reaches everybody)
                        for fld in getattr(val, "model_fields", {}).values():
                            d = getattr(fld, "default", None)
                            if type(d) in (dict, list, set):
                                self.defaults.append((d, self._copy.deepcopy(d)))
                        continue
                    self.owners.append((val, self._plain_attrs(val)))
                    for f in vars(val).values():
                        self._scan_function(getattr(f, "__func__", f))
                elif callable(val) and getattr(val, "__module__", "") and str(getattr(val, "__module__", "")).startswith(prefix):
                    self._scan_function(val)

    def _plain_attrs(self, owner):
        out = {}
        for name, val in list(vars(owner).items()):
            if name.startswith("__") or isinstance(val, types.ModuleType):
                continue
            if type(val) in self._PLAIN:
                try:
                    out[name] = self._copy.deepcopy(val)
                except Exception:
                    pass
        return out

    def _scan_function(self, f):
        if hasattr(f, "cache_clear"):
            self.caches.append(f)
            f = getattr(f, "__wrapped__", f)
        for d in list(getattr(f, "__defaults__", None) or ()) + list((getattr(f, "__kwdefaults__", None) or {}).values()):
            if type(d) in (dict, list, set):
                self.defaults.append((d, self._copy.deepcopy(d)))

    @staticmethod
    def _assign_in_place(obj, content):
        if isinstance(obj, dict):
            obj.clear()
            obj.update(content)
        elif isinstance(obj, list):
            obj[:] = content
        elif isinstance(obj, set):
            obj.clear()
            obj.update(content)

    def enter(self):
        """Switch the package to its pristine state; returns the token needed to switch back."""
        token = {"attrs": [], "defaults": [], "ambient": Ambient.capture()}
        Ambient.restore(self.ambient)
        for owner, pristine in self.owners:
            cur = vars(owner)
            for name in [n for n, v in list(cur.items()) if not n.startswith("__") and type(v) in self._PLAIN]:
                token["attrs"].append((owner, name, True, cur[name]))
                if name in pristine:
                    setattr(owner, name, self._copy.deepcopy(pristine[name]))
                else:
                    try:
                        delattr(owner, name)  # did not exist after import
                    except Exception:
                        pass
            for name in pristine:
                if name not in cur:
                    token["attrs"].append((owner, name, False, None))
                    setattr(owner, name, self._copy.deepcopy(pristine[name]))
        for obj, pristine in self.defaults:
            token["defaults"].append((obj, self._copy.copy(obj)))
            self._assign_in_place(obj, self._copy.deepcopy(pristine))
        for f in self.caches:
            try:
                f.cache_clear()
            except Exception:
                pass
        return token

    def exit(self, token):
        for owner, name, existed, val in token["attrs"]:
            try:
                if existed:
                    setattr(owner, name, val)
                else:
                    delattr(owner, name)
            except Exception:
                pass
        for obj, content in token["defaults"]:
            self._assign_in_place(obj, content)
        Ambient.restore(token["ambient"])

    def reset(self):
        """Start of a history = a fresh process as far as plain package-level, class-level and third-party
        global state goes: histories do not inherit such state from the ones that ran before in the same worker
        (state the guard cannot see still makes a replay depend on its predecessors; see `pre_seeds`)."""
        self.enter()

    def reset_ambient(self):
        """Start of a history: whatever an earlier history left in third-party global state is gone."""
        Ambient.restore(self.ambient)
