"""C15 - runs are gated, deterministic, isolated, persistent; PoSER validates its inputs.

World  : 1-3 real SingleSetups (or one MultiSetup_PreGER) over user-owned arrays and a pool of
         real algorithm instances of every class; real save_to_file/load_from_file behind a
         simulated disk; the real MultiSetup_PoSER constructor.
History: seeded interleaving of add / run_by_name / run_all / mpe / set_run_params / preprocessing /
         save / load / restart / crash-during-save / PoSER construction, with numerical faults on the
         k-th numpy/scipy call inside a run or mpe and disk faults inside a save or load.
Oracle : isolated execution (a fresh instance of the same class, alone in a fresh setup, on the
         same bound data) + an abstract gate/PoSER model (DESIGN section 5).
"""
import copy
import random
import types

import numpy as np

from sim import datagen
from sim import env as _env
from sim.canon import EventLog, canon, field_hashes, h_array, h_obj
from sim.seams import FaultPlan, GlobalStateGuard, NumProxy, SimCrash, SimFS, SimOS, exc_for_site

PROPERTY = "C15"
CHUNK = 4

_S = {}

SINGLE = ["FDD", "EFDD", "FSDD", "SSIdat", "SSIcov", "pLSCF"]
MULTI = ["FDD_MS", "EFDD_MS", "SSIdat_MS", "SSIcov_MS", "pLSCF_MS"]
PERMISSIVE = dict(conj=False, xi_max=1.0, mpc_lim=0.0, mpd_lim=2.0, cov_max=10.0)
TIGHT = dict(conj=True, xi_max=0.05, mpc_lim=0.8, mpd_lim=0.2, cov_max=0.1)
SC_LOOSE = dict(err_fn=0.05, err_xi=0.2, err_phi=0.1)
SC_STRICT = dict(err_fn=0.002, err_xi=0.01, err_phi=0.005)


# ---------------------------------------------------------------------------------------------
# seams
# ---------------------------------------------------------------------------------------------
def init_worker():
    if _S:
        return
    import scipy.linalg
    import scipy.signal

    import pyoma2.functions.fdd as ffdd
    import pyoma2.functions.gen as fgen
    import pyoma2.functions.plscf as fplscf
    import pyoma2.functions.ssi as fssi

    plan = FaultPlan()
    _S["plan"] = plan
    npx = NumProxy(np, plan, "np")
    lax = NumProxy(scipy.linalg, plan, "linalg")
    sgx = NumProxy(scipy.signal, plan, "signal")
    n = 0
    for mod in (fssi, ffdd, fplscf, fgen):
        if getattr(mod, "np", None) is np:
            mod.np = npx
            n += 1
        if getattr(mod, "linalg", None) is scipy.linalg:
            mod.linalg = lax
            n += 1
        if getattr(mod, "signal", None) is scipy.signal:
            mod.signal = sgx
            n += 1
    if hasattr(ffdd, "curve_fit"):
        real_cf = ffdd.curve_fit

        def curve_fit(*a, **k):
            plan.tick("num", "optimize.curve_fit")
            return real_cf(*a, **k)

        ffdd.curve_fit = curve_fit
        n += 1
    _S["proxied_names"] = n
    fs = SimFS(plan)
    _S["fs"] = fs
    fgen.open = fs.open  # module attribute shadows the builtin inside pyoma2.functions.gen only
    if isinstance(getattr(fgen, "os", None), types.ModuleType):
        fgen.os = SimOS(fgen.os, fs)  # only present if a version of the library uses os around saving
    _S["gen"] = fgen
    # make the call log available
    plan.calls = None
    orig_tick = plan.tick

    def tick(site, detail=None):
        if site == "num" and plan.calls is not None:
            plan.calls.append(detail)
        return orig_tick(site, detail)

    plan.tick = tick
    import pyoma2.algorithms  # noqa: F401  (everything imported before the pristine state is captured)
    import pyoma2.setup  # noqa: F401

    _S["guard"] = GlobalStateGuard("pyoma2")


def _classes():
    import pyoma2.algorithms as A

    return {n: getattr(A, n) for n in SINGLE + MULTI}


# ---------------------------------------------------------------------------------------------
# world
# ---------------------------------------------------------------------------------------------
def gen_params(rng, cls, ndat_min, nch_min):
    """Small randomised run parameters for one algorithm class (plain dict, replayable)."""
    fam = "SSI" if cls.startswith("SSI") else "pLSCF" if cls.startswith("pLSCF") else "FDD"
    permissive = rng.random() < 0.7
    if fam == "SSI":
        p = {"br": rng.randint(2, 8), "ordmax": rng.choice([4, 6, 8, 10, 12]), "ordmin": rng.choice([0, 0, 0, 2]), "step": 1}
        if permissive:
            p["hc"] = dict(PERMISSIVE)
        elif rng.random() < 0.4:
            p["hc"] = dict(TIGHT)  # explicit and different from both the default and the permissive set
        if rng.random() < 0.2:
            p["sc"] = dict(rng.choice([SC_LOOSE, SC_STRICT]))
        if rng.random() < 0.35:
            # any Hankel assembly method may be requested explicitly from either class
            p["method"] = rng.choice(["cov_R", "cov_mm", "dat"])
        if cls in ("SSIcov", "SSIdat") and rng.random() < 0.3 and nch_min >= 2:
            p["ref_ind"] = sorted(rng.sample(range(nch_min), rng.randint(1, nch_min)))
        if cls == "SSIcov" and rng.random() < 0.12:
            p["calc_unc"] = True
            p["nb"] = rng.choice([4, 8])
            p["method"] = "cov_mm"
            p["br"] = min(p["br"], 4)
            p["ordmax"] = min(p["ordmax"], 6)
        return p
    nx = rng.choice([32, 64, 128, 256])
    p = {"nxseg": nx, "method_SD": rng.choice(["per", "cor"]), "pov": rng.choice([0.0, 0.5, 0.5, 0.75])}
    if fam == "pLSCF":
        p["ordmax"] = rng.randint(3, 8)
        p["ordmin"] = rng.choice([0, 0, 0, 1])
        if permissive:
            p["hc"] = {k: v for k, v in PERMISSIVE.items() if k != "cov_max"}
        elif rng.random() < 0.4:
            p["hc"] = {k: v for k, v in TIGHT.items() if k != "cov_max"}
        if rng.random() < 0.2:
            p["sc"] = dict(rng.choice([SC_LOOSE, SC_STRICT]))
    return p


def gen_world(rng):
    r = rng.random()
    mode = "poser" if r < 0.30 else "preger" if r < 0.44 else "mixed"
    fs = rng.choice([20.0, 50.0, 100.0, 128.0])
    w = {"mode": mode, "fs": fs, "seed": rng.getrandbits(40),
         "layout": rng.choices(["C", "F", "view"], weights=[0.75, 0.15, 0.10])[0]}
    if mode == "preger":
        nds = rng.choice([1, 2, 2, 3])
        nch = [rng.randint(3, 5) for _ in range(nds)]
        nref = rng.randint(1, 2)
        w["setups"] = [{"kind": "preger", "ndat": [rng.randint(600, 1500) for _ in range(nds)], "nch": nch,
                        "ref_ind": [rng.sample(range(c), nref) for c in nch]}]
        names = MULTI
    else:
        ns = rng.choice([2, 3, 3, 4]) if mode == "poser" else rng.choice([1, 1, 2, 2, 3])
        w["setups"] = [{"kind": "single", "ndat": [rng.randint(600, 2000)], "nch": [rng.randint(2, 5)]} for _ in range(ns)]
        names = SINGLE
    nmin = min(min(s["ndat"]) for s in w["setups"])
    cmin = min(min(s["nch"]) for s in w["setups"])
    algs = []
    if mode == "poser":
        # every setup gets the same class list (the acceptable configuration), perturbed later by the history
        k = rng.randint(1, 2)
        cl = [rng.choice(["FDD", "EFDD", "SSIcov", "SSIdat", "pLSCF", "FSDD"]) for _ in range(k)]
        # near-miss configurations: everything acceptable except one aspect of one setup
        variant = rng.choice(["ok", "ok", "ok", "related_class", "related_class", "swapped", "missing", "other_class"])
        victim = rng.randrange(len(w["setups"]))
        w["poser_variant"] = [variant, victim]
        related = {"FDD": ["EFDD", "FSDD"], "EFDD": ["FDD", "FSDD"], "FSDD": ["EFDD", "FDD"],
                   "SSIcov": ["SSIdat"], "SSIdat": ["SSIcov"], "pLSCF": ["SSIcov"]}
        for si in range(len(w["setups"])):
            mine = list(enumerate(cl))
            if si == victim:
                if variant == "related_class":
                    j = rng.randrange(k)
                    mine[j] = (j, rng.choice(related[cl[j]]))
                elif variant == "other_class":
                    j = rng.randrange(k)
                    mine[j] = (j, rng.choice([c for c in SINGLE if c != cl[j]]))
                elif variant == "swapped" and k == 2:
                    mine.reverse()
                elif variant == "missing" and k == 2:
                    mine = mine[:1]
            for j, c in mine:
                algs.append({"cls": c, "name": f"a{j}", "home": si, "params": gen_params(rng, c, nmin, cmin)})
        # a spare algorithm of another class to perturb one setup with
        c = rng.choice(SINGLE)
        algs.append({"cls": c, "name": "spare", "home": rng.randrange(len(w["setups"])), "params": gen_params(rng, c, nmin, cmin)})
    else:
        na = rng.randint(2, 6)
        for j in range(na):
            c = rng.choice(names)
            a = {"cls": c, "name": f"{c}_{j}", "home": rng.randrange(len(w["setups"])),
                 "params": gen_params(rng, c, nmin, cmin)}
            twins = [x for x in algs if x["params"] is not None]
            if twins and rng.random() < 0.4:
                # a near twin of an earlier algorithm: same setup and parameters except exactly one field
                # (anything cached or shared under too coarse a key collides here)
                t = rng.choice(twins)
                fam = lambda n: "SSI" if n.startswith("SSI") else "pLSCF" if n.startswith("pLSCF") else "FDD"  # noqa: E731
                same = [n for n in names if fam(n) == fam(t["cls"])]
                c = rng.choice(same)
                p = copy.deepcopy(t["params"])
                alt = gen_params(rng, c, nmin, cmin)
                keys = sorted(k for k in p if k in alt and k not in ("hc", "ordmin", "step") and alt[k] != p[k])
                if keys:
                    kk = rng.choice(keys)
                    p[kk] = alt[kk]
                if not c.startswith("SSIcov"):
                    for drop in ("calc_unc", "nb"):
                        p.pop(drop, None)
                    if p.get("method") in ("cov_R", "cov_mm"):
                        p.pop("method")
                if c.endswith("_MS"):
                    p.pop("ref_ind", None)
                a = {"cls": c, "name": f"{c}_{j}", "home": t["home"], "params": p}
            if twins and rng.random() < 0.15:
                # the user hands ONE ready-made parameter object to two algorithms of classes that use the same
                # parameter class: whatever one of them writes into it is seen by the other
                t = rng.choice(twins)
                group = [g for g in (["SSIdat", "SSIcov"], ["SSIdat_MS", "SSIcov_MS"], ["EFDD", "FSDD"], ["FDD"], ["pLSCF"],
                                     ["FDD_MS"], ["EFDD_MS"], ["pLSCF_MS"]) if t["cls"] in g][0]
                c = rng.choice(group)
                a = {"cls": c, "name": f"{c}_{j}", "home": t["home"], "params": copy.deepcopy(t["params"]),
                     "share_params_with": algs.index(t)}
            if rng.random() < 0.15:
                # no name given: the class name is used - two such algorithms of one class in one setup collide,
                # and the one added later takes over the registration
                a["name"], a["default_name"] = a["cls"], True
            if rng.random() < 0.2:
                a["params_as_object"] = True  # a ready-made RunParams object instead of keywords
            if rng.random() < 0.12:
                a["params"] = None  # constructed without run parameters: the gate must hold
            if rng.random() < 0.06 and a["params"] is not None:
                # parameters that make the numerical kernel fail naturally
                if "nxseg" in a["params"]:
                    a["params"]["nxseg"] = 1
                elif c in ("SSIcov", "SSIdat"):
                    a["params"]["ref_ind"] = [99]
                else:
                    a["params"]["method"] = "no_such_method"
            algs.append(a)
    w["algs"] = algs
    w["log_debug"] = rng.random() < 0.1  # the package logger at DEBUG level: must not change anything
    w["fs_as"] = rng.choices(["float", "npint", "npfloat32", "int", "npfloat"], weights=[0.76, 0.07, 0.05, 0.07, 0.05])[0]
    w["dropout"] = rng.random() < 0.04
    return w


def build_arrays(w, only=None, gen=0):
    """Arrays of every setup (or of setup `only`); `gen` > 0 gives the next record of the same kind: same shapes, dtype
    and sampling, other content."""
    out = []
    for i, s in enumerate(w["setups"]):
        if only is not None and i != only:
            continue
        arrs = []
        for j in range(len(s["ndat"])):
            a = datagen.resonator_record(w["seed"] + 104729 * i + 7919 * j + 15485863 * gen, s["ndat"][j], s["nch"][j], w["fs"],
                                         nmodes=2, trend=(j + i) % 2 == 0)
            lay = w.get("layout", "C")
            if lay == "F":
                a = np.asfortranarray(a)
            elif lay == "view":
                big = np.full((a.shape[0] + 4, a.shape[1] + 3), 3.5)
                big[2:2 + a.shape[0], 1:1 + a.shape[1]] = a
                a = big[2:2 + a.shape[0], 1:1 + a.shape[1]]
            if w.get("dropout") and i == 0 and j == 0 and gen == 0:
                # a sensor dropout: a few non-finite samples in one channel. Most algorithms then fail on their own
                # (or produce NaN results) - in the history and in the isolated reference alike; what must still hold
                # is that nobody "repairs" the shared array in place
                k0 = a.shape[0] // 3
                a[k0:k0 + 3, a.shape[1] - 1] = np.nan
            arrs.append(a)
        out.append(arrs)
    return out


def make_alg(spec, built=None):
    cls = _classes()[spec["cls"]]
    name = None if spec.get("default_name") else spec["name"]
    j = spec.get("share_params_with")
    if (built is not None and j is not None and spec["params"] is not None and j < len(built)
            and getattr(built[j], "run_params", None) is not None):
        return cls(run_params=built[j].run_params, name=name)  # the very same parameter object
    if spec["params"] is None:
        return cls(name=name)
    if spec.get("params_as_object"):
        return cls(run_params=cls.RunParamCls(**copy.deepcopy(spec["params"])), name=name)
    return cls(name=name, **copy.deepcopy(spec["params"]))


def user_fs(w):
    """The sampling frequency in the numeric type the user happens to hold it in (read from a file header, say)."""
    fs, how = w["fs"], w.get("fs_as", "float")
    if how == "npint":
        return np.int64(round(fs))
    if how == "npfloat32":
        return np.float32(fs)
    if how == "int":
        return int(round(fs))
    if how == "npfloat":
        return np.float64(fs)
    return fs


def make_setup(s, arrays, fs):
    from pyoma2.setup import MultiSetup_PreGER, SingleSetup

    if s["kind"] == "single":
        return SingleSetup(arrays[0], fs=fs)
    return MultiSetup_PreGER(fs=fs, ref_ind=copy.deepcopy(s["ref_ind"]), datasets=list(arrays))


# ---------------------------------------------------------------------------------------------
# observation helpers
# ---------------------------------------------------------------------------------------------
def h_data(x):
    if isinstance(x, np.ndarray):
        return h_array(x)
    if isinstance(x, (list, tuple)):
        return h_obj([{k: h_array(v) for k, v in sorted(d.items())} if isinstance(d, dict) else canon(d) for d in x])
    return h_obj(x)


def layout_sig(x):
    if isinstance(x, np.ndarray):
        return (x.shape, x.strides, str(x.dtype), x.ctypes.data % 64)
    if isinstance(x, (list, tuple)):
        return tuple(tuple((k, layout_sig(v)) for k, v in sorted(d.items())) if isinstance(d, dict) else None for d in x)
    return None


def snap_alg(alg):
    return {
        "result": None if getattr(alg, "result", None) is None else field_hashes(alg.result),
        "params": None if getattr(alg, "run_params", None) is None else h_obj(alg.run_params),
        "data": h_data(getattr(alg, "data", None)),
        "fs": getattr(alg, "fs", None),
    }


def canon_setup(setup):
    algs = getattr(setup, "algorithms", {}) or {}
    return {
        "cls": type(setup).__name__,
        "data": h_data(getattr(setup, "data", None)),
        "fs": canon(getattr(setup, "fs", None)),
        "algs": [
            {"name": n, "cls": type(a).__name__, "params": canon(getattr(a, "run_params", None)),
             "result": canon(getattr(a, "result", None)), "data": h_data(getattr(a, "data", None)),
             "fs": canon(getattr(a, "fs", None)), "dt": canon(getattr(a, "dt", None))}
            for n, a in algs.items()
        ],
    }


def diff_fields(a, b):
    if a is None or b is None:
        return ["<result missing>" if a is None else "<reference missing>"]
    return sorted(k for k in set(a) | set(b) if a.get(k) != b.get(k))


# ---------------------------------------------------------------------------------------------
# the simulated world
# ---------------------------------------------------------------------------------------------
class AlgState:
    """Abstract model of one algorithm instance."""

    def __init__(self, spec):
        self.spec = spec
        self.added_to = None
        self.has_params = spec["params"] is not None
        self.cur_params = copy.deepcopy(spec["params"])
        # for the extraction oracle: the result exactly as the last clean run left it, and the run parameters exactly as
        # the user last supplied them - neither touched by any earlier mpe call
        self.result_after_run = None
        self.clean_params = None
        self.ran = False
        self.mpe = "no"  # no | yes | unknown
        self.mpe_args = None
        self.unknown = False  # result not judged (swallowed fault) until the next clean run
        self.stale = False  # parameters or binding changed since the last run: extraction not judged until re-run
        self.loaded = False

    def abstract(self):
        return f"{int(self.added_to is not None)}{int(self.has_params)}{int(self.ran)}{self.mpe[0]}{int(self.loaded)}"


class World:
    def __init__(self, w, res, log):
        self.w, self.res, self.log = w, res, log
        self.plan, self.fs = _S["plan"], _S["fs"]
        self.plan.reset()  # nothing armed may survive from the previous history of this worker
        self.fs.deactivate()
        self.fs.files.clear()
        self.arrays = build_arrays(w)
        self.user_hash = [[h_array(a) for a in arrs] for arrs in self.arrays]
        self.setups = [make_setup(s, self.arrays[i], user_fs(w)) for i, s in enumerate(w["setups"])]
        self.algs = []
        self.sel_lists = {}  # algorithm index -> the one list object the user passes as sel_freq again and again
        self.record_gen = {}  # setup index -> how many records of that kind have been analysed before the current one
        self.user_shared_params = {}  # id -> parameter object that the user handed to more than one algorithm
        for a in w["algs"]:
            self.algs.append(make_alg(a, self.algs))
            if a.get("share_params_with") is not None and getattr(self.algs[-1], "run_params", None) is not None:
                # keeps the object alive too, so its id cannot be re-used within this history
                self.user_shared_params[id(self.algs[-1].run_params)] = self.algs[-1].run_params
        self.st = [AlgState(a) for a in w["algs"]]
        for st, alg in zip(self.st, self.algs):
            st.clean_params = copy.deepcopy(alg.run_params)
        for i, a in enumerate(w["algs"]):
            j = a.get("share_params_with")
            if j is not None and j < i and getattr(self.algs[i], "run_params", None) is not None \
                    and self.algs[i].run_params is self.algs[j].run_params:
                # one parameter object handed to both: what the user wrote down for it are the values of the first
                self.st[i].cur_params = copy.deepcopy(self.st[j].cur_params)
        self.order = [[] for _ in self.setups]  # per setup: algorithm indices in registration order (the model's own)
        self.refs = {}  # isolated-execution memo
        self.saved = {}  # path -> records {"snap", "states", "setup"} that may legitimately be read back
        self.last_good = {}  # setup index -> path of its latest successful save
        self.complete = {}  # path -> did the latest save to it complete?
        self.shadows = []  # (loaded object, canon at load time) for the aliasing check
        self.stop = False
        self.last_op = None

    # -- bookkeeping ------------------------------------------------------------------------
    def inc(self, k, by=1):
        c = self.res["counters"]
        c[k] = c.get(k, 0) + by

    def violate(self, oracle, step, detail, alg_i=None):
        op = self.last_op or {"op": "init"}
        role = self.w["algs"][alg_i]["cls"] if alg_i is not None else "-"
        fp = f"{oracle}@{op['op']}/{role}"
        self.res["violations"].append({"oracle": oracle, "fingerprint": fp, "step": step, "detail": detail})
        self.stop = True

    def members(self, si):
        return [i for i, s in enumerate(self.st) if s.added_to == si]

    def find(self, si, name):
        for i in self.members(si):
            if self.w["algs"][i]["name"] == name:
                return i
        return None

    # -- isolated execution -----------------------------------------------------------------
    def reference(self, ai, want_mpe=None):
        """Result of a fresh instance of the same class with equal parameters, alone in a fresh
        setup, on the same bound data. Returns dict(exc | fields, alg, ncalls, calls)."""
        from pyoma2.setup import BaseSetup

        alg = self.algs[ai]
        # the parameters exactly as the user supplied them (constructor / set_run_params): whatever an mpe call, a run or
        # another algorithm sharing the same parameter object wrote into them since must not reach the reference
        params = self.st[ai].clean_params if self.st[ai].clean_params is not None else alg.run_params
        supplied = self.st[ai].cur_params if self.st[ai].has_params else None  # the plain values the user wrote down
        key = (type(alg).__name__, h_obj(params), h_obj(supplied), h_data(alg.data), repr(layout_sig(alg.data)), repr(alg.fs))
        ent = self.refs.get(key)
        if ent is None:
            fresh = type(alg)(name="ref")
            if supplied is not None:
                # built from the user's own values with the package in its pristine state: whatever constructing OTHER
                # parameter objects did to shared class-level defaults must not reach the reference
                tok = _S["guard"].enter()
                try:
                    fresh.set_run_params(type(alg).RunParamCls(**copy.deepcopy(supplied)))
                finally:
                    _S["guard"].exit(tok)
            elif params is not None:
                fresh.set_run_params(copy.deepcopy(params))
            bs = BaseSetup()
            bs.data, bs.fs = alg.data, alg.fs
            before = h_data(alg.data)
            self.plan.reset()
            self.plan.calls = []
            ent = {"mpe": {}}
            tok = _S["guard"].enter()  # "alone": package-level state as right after import
            try:
                bs.add_algorithms(fresh)
                bs.run_by_name("ref")
                ent["exc"] = None
            except Exception as e:
                ent["exc"] = type(e).__name__
            finally:
                _S["guard"].exit(tok)
            ent["calls"] = self.plan.calls
            self.plan.calls = None
            ent["direct_ok"] = False
            if ent["exc"] is not None and fresh.run_params is not None:
                # is it the requirement check that refuses, although data, sampling frequency and parameters are all
                # there? Then the algorithm's own run(), called directly on an instance bound the same way, completes
                tok = _S["guard"].enter()
                try:
                    probe = type(alg)(name="ref_direct")
                    probe.set_run_params(copy.deepcopy(fresh.run_params))
                    probe._set_data(data=alg.data, fs=alg.fs)
                    ent["direct_ok"] = probe.run() is not None
                except Exception:
                    ent["direct_ok"] = False
                finally:
                    _S["guard"].exit(tok)
            ent["alg"] = fresh
            ent["fields"] = field_hashes(fresh.result) if fresh.result is not None else None
            ent["data_mutated"] = h_data(alg.data) != before
            self.refs[key] = ent
            self.inc("ref.computed")
        else:
            self.inc("ref.memo_hit")
        if want_mpe is None:
            return ent
        mk = h_obj(want_mpe)
        m = ent["mpe"].get(mk)
        if m is None:
            c = copy.copy(ent["alg"])  # same bound data object, private result and parameters
            c.result = copy.deepcopy(ent["alg"].result)
            c.run_params = copy.deepcopy(ent["alg"].run_params)
            self.plan.reset()
            self.plan.calls = []
            m = {}
            tok = _S["guard"].enter()
            try:
                c.mpe(**copy.deepcopy(want_mpe))
                m["exc"] = None
            except Exception as e:
                m["exc"] = type(e).__name__
            finally:
                _S["guard"].exit(tok)
            m["calls"] = self.plan.calls
            self.plan.calls = None
            m["fields"] = field_hashes(c.result) if c.result is not None else None
            m["alg"] = c
            ent["mpe"][mk] = m
        return m

    # -- snapshots and the isolation invariant ----------------------------------------------
    def snapshot(self):
        return {
            "algs": [snap_alg(a) for a in self.algs],
            "setups": [h_data(getattr(s, "data", None)) for s in self.setups],
            "user": [[h_array(a) for a in arrs] for arrs in self.arrays],
        }

    def sharers(self, idxs):
        """Algorithms whose run-parameter OBJECT is the same as that of one of `idxs` (the user may share one)."""
        objs = [self.algs[i].run_params for i in idxs if getattr(self.algs[i], "run_params", None) is not None]
        return {j for j, a in enumerate(self.algs) if any(getattr(a, "run_params", None) is o for o in objs)} | set(idxs)

    def check_isolation(self, before, after, step, allow):
        """allow: dict(result=set(alg idx), params=set(alg idx), data=set(alg idx), setup=set(setup idx))"""
        if allow.get("params"):
            allow = {**allow, "params": self.sharers(allow["params"])}
        if after["user"] != self.user_hash:
            self.violate("iso.data_mutated", step, "an array passed in by the user was modified in place")
            return
        for si, (a, b) in enumerate(zip(before["setups"], after["setups"])):
            if a != b and si not in allow.get("setup", ()):
                self.violate("iso.data_mutated", step, f"setup {si}: the shared data changed")
                return
        for ai, (a, b) in enumerate(zip(before["algs"], after["algs"])):
            if a["data"] != b["data"] and ai not in allow.get("data", ()):
                self.violate("iso.data_mutated", step, f"data bound to algorithm {self.w['algs'][ai]['name']} changed", ai)
                return
            if a["fs"] != b["fs"] and ai not in allow.get("data", ()):
                self.violate("iso.data_mutated", step, f"fs bound to algorithm {self.w['algs'][ai]['name']} changed", ai)
                return
            if a["result"] != b["result"] and ai not in allow.get("result", ()):
                self.violate("iso.other_result", step,
                             f"result of {self.w['algs'][ai]['name']} changed (fields {diff_fields(a['result'], b['result'])}) "
                             f"although the operation did not target it", ai)
                return
            if a["params"] != b["params"] and ai not in allow.get("params", ()):
                self.violate("iso.other_params", step, f"run parameters of {self.w['algs'][ai]['name']} changed", ai)
                return


# ---------------------------------------------------------------------------------------------
# mpe arguments derived from a reference result (so that extraction has something to find)
# ---------------------------------------------------------------------------------------------
def gen_mpe_args(rng, cls, ref_alg, fs, nmodes=None, hopeless=False):
    r = ref_alg.result
    fam = "SSI" if cls.startswith("SSI") else "pLSCF" if cls.startswith("pLSCF") else "EFDD" if cls[:4] in ("EFDD", "FSDD") else "FDD"
    k = nmodes or rng.randint(1, 3)
    if nmodes is None and rng.random() < 0.03:
        # nothing to extract: legal, whatever the class makes of it the isolated extraction must make the same
        base = {"sel_freq": []}
        if fam in ("SSI", "pLSCF"):
            base["order"] = 1
        return base
    if fam in ("SSI", "pLSCF"):
        Fn = np.asarray(r.Fn_poles, dtype=float)
        ncols = Fn.shape[1]
        cols = [c for c in range(ncols) if np.isfinite(Fn[:, c]).sum() >= 1]
        if hopeless or not cols:
            return {"sel_freq": [round(0.49 * fs, 4)] * 1, "order": rng.randrange(ncols), "rtol": 1e-3}
        if rng.random() < 0.25:
            Lab = np.asarray(r.Lab)
            st = Fn[(Lab == 1) & np.isfinite(Fn)]
            if st.size:
                f = sorted({float(x) for x in rng.sample(list(st), min(k, st.size))})
                return {"sel_freq": [round(x, 3) for x in f], "order": "find_min", "rtol": rng.choice([5e-2, 1e-1])}
        c = rng.choice(cols[len(cols) // 2:])
        col = Fn[:, c][np.isfinite(Fn[:, c])]
        f = sorted({float(x) for x in rng.sample(list(col), min(k, col.size))})
        return {"sel_freq": [round(x * (1 + rng.uniform(-2e-3, 2e-3)), 5) for x in f], "order": int(c), "rtol": 5e-2}
    freq = np.asarray(r.freq, dtype=float)
    s1 = np.asarray(r.S_val)[0, 0, :]
    df = float(freq[1] - freq[0]) if len(freq) > 1 else 1.0
    n = len(freq)
    lo, hi = max(2, n // 20), n - max(3, n // 20)
    if hopeless or hi - lo < 3:
        sel = [float(freq[min(n - 1, 1)])]
    else:
        idx = np.argsort(s1[lo:hi])[::-1] + lo
        pk = []
        for i in idx:
            if all(abs(i - j) > max(3, n // 16) for j in pk):
                pk.append(int(i))
            if len(pk) == k:
                break
        sel = sorted(float(freq[i]) for i in pk)
    if fam == "FDD":
        return {"sel_freq": sel, "DF": round(rng.uniform(1.5, 4) * df, 6)}
    return {"sel_freq": sel, "DF1": round(rng.uniform(1.5, 3) * df, 6), "DF2": round(rng.uniform(4, 8) * df, 6),
            "sppk": rng.choice([0, 1, 2]), "npmax": rng.choice([4, 6])}


# ---------------------------------------------------------------------------------------------
# operation generator
# ---------------------------------------------------------------------------------------------
def gen_swarm(rng, mode, tier="quick"):
    W = {"add": rng.choice([2, 3, 4]), "run": rng.choice([3, 4, 6]), "run_all": rng.choice([0.5, 1, 2]),
         "mpe": rng.choice([2, 3, 4]), "set_params": rng.choice([0.5, 1, 2]), "preproc": rng.choice([0, 0.5, 1.5]),
         "save": rng.choice([0, 0.5, 1]), "load_check": rng.choice([0, 0.5, 1]), "restart": rng.choice([0, 0.5, 1]),
         "save_crash": rng.choice([0, 0.3, 0.8]), "poser": rng.choice([0.5, 1, 2]) if mode != "preger" else 0,
         "bare_gate": rng.choice([0, 0.3]), "new_record": rng.choice([0, 0, 0.4, 1.0]) if mode != "poser" else 0,
         "recreate": rng.choice([0, 0.5, 1.0]) if mode != "poser" else 0,
         "branch_copy": rng.choice([0, 0, 0.5]) if mode != "poser" else 0,
         "user_edit": rng.choice([0, 0, 0.6]) if mode == "mixed" else 0}
    r = rng.random()
    nops = rng.randint(3, 5) if r < 0.3 else rng.randint(5, 8) if r < 0.75 else rng.randint(8, 12)
    if tier == "thorough" and rng.random() < 0.25:
        nops = rng.randint(10, 18)
    faulty = rng.random() < 0.5
    return {"w": W, "nops": nops, "faulty": faulty, "pfault": rng.choice([0.15, 0.3]), "epilogue": faulty or rng.random() < 0.3}


def gen_op(rng, wd: World, swarm, step, script):
    """Next concrete operation. `script` drives the directed PoSER class first."""
    w = wd.w
    if script:
        return script.pop(0)(rng, wd)
    W = swarm["w"]
    ks = [k for k in W if W[k] > 0]
    nset = len(wd.setups)
    for _ in range(20):
        k = rng.choices(ks, weights=[W[x] for x in ks])[0]
        si = rng.randrange(nset)
        mem = wd.members(si)
        if k == "new_record":
            ran = [i for i in mem if wd.st[i].ran]
            if not ran:
                continue  # moving on to the next record only means something after an analysis
            # the usual loop: the same algorithms (same classes, same parameters) on the next record
            again = sorted(mem)
            script.append(lambda r, wd2, si=si, again=again: {"op": "add", "setup": si, "algs": again})
            nm = w["algs"][rng.choice(ran)]["name"]
            script.append(lambda r, wd2, si=si, nm=nm: {"op": "run", "setup": si, "name": nm} if r.random() < 0.7 else {"op": "run_all", "setup": si})
            return {"op": "new_record", "setup": si}
        if not mem and k in ("run", "run_all", "mpe", "save", "restart", "save_crash") and rng.random() < 0.85:
            k = "add"  # nothing to act on yet: most of the time register something first
        if k in ("run", "mpe") and mem and rng.random() < 0.5:
            # prefer the next meaningful step of some member's lifecycle
            never = [i for i in mem if not wd.st[i].ran]
            nompe = [i for i in mem if wd.st[i].ran and wd.st[i].mpe == "no"]
            if k == "run" and never:
                return _with_fault(rng, wd, swarm, {"op": "run", "setup": si, "name": w["algs"][rng.choice(never)]["name"]})
            if k == "mpe" and nompe:
                return _with_fault(rng, wd, swarm, _mpe_op(rng, wd, si, rng.choice(nompe)))
        if k == "add":
            cand = [i for i, a in enumerate(w["algs"]) if a["home"] == si]
            if not cand:
                continue
            fresh = [i for i in cand if wd.st[i].added_to is None]
            pick = fresh if fresh and rng.random() < 0.8 else cand
            n = min(len(pick), rng.choice([1, 1, 2, 3]))
            algs = sorted(rng.sample(pick, n))
            r2 = rng.random()
            if r2 < 0.04:
                algs = []  # add_algorithms() with nothing: legal, changes nothing
            elif r2 < 0.10:
                algs = algs + [algs[0]]  # the same instance twice in one call
            return {"op": "add", "setup": si, "algs": algs}
        if k == "run":
            if mem and rng.random() < 0.93:
                return _with_fault(rng, wd, swarm, {"op": "run", "setup": si, "name": w["algs"][rng.choice(mem)]["name"]})
            return {"op": "run", "setup": si, "name": "nobody"}
        if k == "run_all":
            op = {"op": "run_all", "setup": si}
            if swarm["faulty"] and mem and rng.random() < swarm["pfault"]:
                # a numerical fault somewhere inside the loop over the members
                order = [i for i in _expect_order(wd, si) if wd.st[i].has_params]
                calls = []
                for i in order:
                    ent = wd.reference(i)
                    calls += ent["calls"]
                    if ent["exc"] is not None:
                        break
                if calls:
                    kk = rng.randrange(len(calls))
                    op["fault"] = {"kind": "num_exc", "call": kk, "exc": _fault_exc(rng, calls[kk]), "site": calls[kk]}
            return op
        if k == "mpe":
            if not mem:
                continue
            ran = [i for i in mem if wd.st[i].ran]
            ai = rng.choice(ran) if ran and rng.random() < 0.85 else rng.choice(mem)
            return _with_fault(rng, wd, swarm, _mpe_op(rng, wd, si, ai))
        if k == "set_params":
            cand = [i for i, a in enumerate(w["algs"]) if a["home"] == si]
            if not cand:
                continue
            ran = [i for i in cand if wd.st[i].ran]
            ai = rng.choice(ran) if ran and rng.random() < 0.7 else rng.choice(cand)
            if wd.st[ai].added_to is not None and rng.random() < 0.6:
                script.append(lambda r, wd2, si=wd.st[ai].added_to, nm=w["algs"][ai]["name"]: {"op": "run", "setup": si, "name": nm})
            return _set_params_op(rng, wd, ai, twin=rng.random() < 0.6)
        if k == "preproc":
            kind = rng.choice(["detrend", "decimate", "filter"])
            op = {"op": "preproc", "setup": si, "kind": kind}
            if kind == "decimate":
                op["q"] = 2
            elif kind == "filter":
                fs_now = float(getattr(wd.setups[si], "fs", w["fs"]))
                op["Wn"] = round(0.4 * fs_now / 2 * rng.uniform(0.6, 1.0), 5)
                op["order"] = rng.randint(2, 6)
            if mem and rng.random() < 0.5:
                # the usual continuation: hand the new data to algorithms that were already added, then run one
                again = sorted(rng.sample(mem, rng.randint(1, len(mem))))
                script.append(lambda r, wd2, si=si, again=again: {"op": "add", "setup": si, "algs": again})
                nm = w["algs"][rng.choice(again)]["name"]
                script.append(lambda r, wd2, si=si, nm=nm: {"op": "run", "setup": si, "name": nm})
            return op
        if k == "save":
            return _with_disk_fault(rng, swarm, {"op": "save", "setup": si, "path": f"sim:/s{si}_{rng.choice('ab')}.pkl"})
        if k == "load_check":
            paths = sorted(wd.saved)
            if not paths:
                continue
            return _with_disk_fault(rng, swarm, {"op": "load_check", "path": rng.choice(paths)}, read=True)
        if k == "restart":
            ran = [i for i in mem if wd.st[i].ran]
            if ran and rng.random() < 0.6:
                # "save today, continue tomorrow": extract modes or run again on the loaded objects
                ai = rng.choice(ran)
                if rng.random() < 0.6:
                    script.append(lambda r, wd2, si=si, ai=ai: _mpe_op(r, wd2, si, ai))
                else:
                    script.append(lambda r, wd2, si=si, nm=w["algs"][ai]["name"]: {"op": "run", "setup": si, "name": nm})
            return {"op": "restart", "setup": si, "path": f"sim:/s{si}_{rng.choice('ab')}.pkl"}
        if k == "save_crash":
            if not swarm["faulty"]:
                continue
            return {"op": "save_crash", "setup": si, "path": f"sim:/s{si}_{rng.choice('ab')}.pkl", "frac": round(rng.random(), 4)}
        if k == "poser":
            if nset < 1 or w["mode"] == "preger":
                continue
            return _poser_op(rng, wd)
        if k == "user_edit":
            ran = [i for i in mem if wd.st[i].ran and isinstance(getattr(wd.algs[i], "data", None), np.ndarray)]
            if not ran:
                continue
            i = rng.choice(ran)
            nm = w["algs"][i]["name"]
            script.append(lambda r, wd2, si=si, nm=nm: {"op": "run", "setup": si, "name": nm})
            return {"op": "user_edit", "alg": i, "channel": rng.randrange(8)}
        if k == "branch_copy":
            if not mem:
                continue
            i0 = rng.choice(mem)
            cls0 = w["algs"][i0]["cls"]
            p0 = w["algs"][i0]["params"]
            if p0 is None:
                continue
            return {"op": "branch_copy", "setup": si, "cls": cls0, "params": copy.deepcopy(p0), "preproc": rng.random() < 0.4}
        if k == "recreate":
            free = [i for i, st_ in enumerate(wd.st) if st_.added_to is None and w["algs"][i].get("name") != "spare"]
            if not free or not any(st_.ran for st_ in wd.st):
                continue
            i = rng.choice(free)
            home = w["algs"][i]["home"]
            script.append(lambda r, wd2, i=i, home=home: {"op": "add", "setup": home, "algs": [i]})
            script.append(lambda r, wd2, i=i, home=home: {"op": "run", "setup": home, "name": w["algs"][i]["name"]})
            return {"op": "recreate", "alg": i}
        if k == "bare_gate":
            names = MULTI if w["mode"] == "preger" else SINGLE
            return {"op": "bare_gate", "cls": rng.choice(names), "missing": rng.choice(["data", "fs", "both", "params"])}
    return {"op": "run_all", "setup": 0}


def _set_params_op(rng, wd, ai, twin=True):
    w = wd.w
    if not twin and rng.random() < 0.08:
        return {"op": "set_params", "alg": ai, "params": None}  # parameters taken away again: the run gate must hold
    nmin = min(min(s["ndat"]) for s in w["setups"])
    cmin = min(min(s["nch"]) for s in w["setups"])
    cls = w["algs"][ai]["cls"]
    new = gen_params(rng, cls, nmin, cmin)
    cur = wd.st[ai].cur_params
    if cur is not None and twin:
        # change exactly one field (anything kept from the previous run under too coarse a key collides here)
        keys = sorted(k for k in set(cur) | set(new) if k not in ("hc", "ordmin", "step", "calc_unc", "nb")
                      and cur.get(k) != new.get(k))
        if keys:
            kk = rng.choice(keys)
            tw = copy.deepcopy(cur)
            if kk in new:
                tw[kk] = new[kk]
            else:
                tw.pop(kk, None)
            new = tw
    return {"op": "set_params", "alg": ai, "params": new}


def tuning_script(rng, w):
    """Directed class: the usual tuning loop on one algorithm - run, change one parameter, run again - with a
    numerical fault inside some of the re-runs, followed by a clean re-run (state kept on the instance, on the
    class or at module level between runs shows here)."""
    cand = [i for i, a in enumerate(w["algs"]) if a["params"] is not None]
    cand = [i for i in cand if w["algs"][i]["params"].get("nxseg", 0) != 1 and w["algs"][i]["params"].get("ref_ind") != [99]
            and w["algs"][i]["params"].get("method") != "no_such_method"]
    if not cand:
        return []
    ai = rng.choice(cand)
    si = w["algs"][ai]["home"]
    nm = w["algs"][ai]["name"]
    others = [i for i, a in enumerate(w["algs"]) if a["home"] == si and i != ai]
    first = sorted([ai] + (rng.sample(others, min(len(others), rng.randint(0, 2))) if others else []))
    steps = [lambda r, wd: {"op": "add", "setup": si, "algs": first},
             lambda r, wd: {"op": "run", "setup": si, "name": nm}]
    for _ in range(rng.randint(1, 3)):
        steps.append(lambda r, wd: _set_params_op(r, wd, ai, twin=True))
        if rng.random() < 0.5:
            def faulted(r, wd):
                op = {"op": "run", "setup": si, "name": nm}
                sw = {"faulty": True, "pfault": 1.1}
                return _with_fault(r, wd, sw, op)

            steps.append(faulted)
        steps.append(lambda r, wd: {"op": "run", "setup": si, "name": nm} if r.random() < 0.8 else {"op": "run_all", "setup": si})
    if rng.random() < 0.2:
        # parameters withdrawn: the gate must hold again, and setting them anew must make the algorithm runnable
        steps.append(lambda r, wd: {"op": "set_params", "alg": ai, "params": None})
        steps.append(lambda r, wd: {"op": "run", "setup": si, "name": nm})
        steps.append(lambda r, wd: _set_params_op(r, wd, ai, twin=True))
        steps.append(lambda r, wd: {"op": "run", "setup": si, "name": nm})
    return steps


def persist_script(rng, w):
    """Directed class: work, (preprocess,) save and load, carry on with the loaded copy - what a loaded setup
    does next (re-runs, extraction, the run gate) must be what the original would have done."""
    homes = sorted({a["home"] for a in w["algs"]})
    if not homes:
        return []
    si = rng.choice(homes)
    mine = [i for i, a in enumerate(w["algs"]) if a["home"] == si]
    k = rng.randint(1, len(mine))
    first, rest = mine[:k], mine[k:]
    nm = lambda i: w["algs"][i]["name"]  # noqa: E731
    steps = [lambda r, wd: {"op": "add", "setup": si, "algs": first}]
    if rng.random() < 0.65:
        def pre(r, wd):
            kind = r.choice(["detrend", "decimate", "filter"])
            op = {"op": "preproc", "setup": si, "kind": kind}
            if kind == "decimate":
                op["q"] = 2
            elif kind == "filter":
                fs_now = float(getattr(wd.setups[si], "fs", w["fs"]))
                op["Wn"] = round(0.4 * fs_now / 2 * r.uniform(0.6, 1.0), 5)
                op["order"] = r.randint(2, 6)
            return op

        steps.append(pre)
        if rest and rng.random() < 0.6:
            steps.append(lambda r, wd: {"op": "add", "setup": si, "algs": rest})
    before = rng.random()
    if before < 0.4:
        steps.append(lambda r, wd: {"op": "run_all", "setup": si})
    elif before < 0.8:
        t = rng.choice(first)
        steps.append(lambda r, wd: {"op": "run", "setup": si, "name": nm(t)})
        if rng.random() < 0.5:
            steps.append(lambda r, wd: _mpe_op(r, wd, si, t))
    if rng.random() < 0.75:
        steps.append(lambda r, wd: {"op": "restart", "setup": si, "path": f"sim:/s{si}_a.pkl"})
    else:
        steps.append(lambda r, wd: {"op": "save", "setup": si, "path": f"sim:/s{si}_a.pkl"})
        steps.append(lambda r, wd: {"op": "load_check", "path": f"sim:/s{si}_a.pkl"})
    for _ in range(rng.randint(1, 3)):
        t2 = rng.choice(first)
        q = rng.random()
        if q < 0.45:
            steps.append(lambda r, wd, t2=t2: {"op": "run", "setup": si, "name": nm(t2)})
        elif q < 0.6:
            steps.append(lambda r, wd: {"op": "run_all", "setup": si})
        elif q < 0.85:
            steps.append(lambda r, wd, t2=t2: _mpe_op(r, wd, si, t2))
        else:
            steps.append(lambda r, wd, t2=t2: {"op": "set_params", "alg": t2, "params": None})
            steps.append(lambda r, wd, t2=t2: {"op": "run", "setup": si, "name": nm(t2)})
    if rng.random() < 0.45:
        # a second generation on the SAME path: what is loaded must be what was saved last, not what was there before
        if rng.random() < 0.5:
            steps.append(lambda r, wd: {"op": "restart", "setup": si, "path": f"sim:/s{si}_a.pkl"})
        else:
            steps.append(lambda r, wd: {"op": "save", "setup": si, "path": f"sim:/s{si}_a.pkl"})
            steps.append(lambda r, wd: {"op": "load_check", "path": f"sim:/s{si}_a.pkl"})
    return steps


def records_script(rng, w):
    """Directed class: the batch loop - analyse a record, drop everything, analyse the next record of the same kind with
    the same algorithm classes and parameters in new objects (twice or three times)."""
    homes = sorted({a["home"] for a in w["algs"]})
    if not homes:
        return []
    si = rng.choice(homes)
    mine = [i for i, a in enumerate(w["algs"]) if a["home"] == si]
    t = rng.choice(mine)
    nm = w["algs"][t]["name"]
    steps = []
    for rep in range(rng.randint(2, 3)):
        if rep:
            steps.append(lambda r, wd: {"op": "new_record", "setup": si})
        steps.append(lambda r, wd: {"op": "add", "setup": si, "algs": mine})
        if rng.random() < 0.7:
            steps.append(lambda r, wd: {"op": "run", "setup": si, "name": nm})
        else:
            steps.append(lambda r, wd: {"op": "run_all", "setup": si})
        if rng.random() < 0.3:
            steps.append(lambda r, wd: _mpe_op(r, wd, si, t))
    return steps


def _mpe_op(rng, wd, si, ai, nmodes=None):
    st = wd.st[ai]
    spec = wd.w["algs"][ai]
    args = None
    if st.ran and wd.algs[ai].result is not None:
        try:
            args = gen_mpe_args(rng, spec["cls"], wd.algs[ai], wd.algs[ai].fs, nmodes=nmodes, hopeless=rng.random() < 0.05)
        except Exception:
            args = None  # a result that cannot even be inspected (swallowed fault): fall back to fixed arguments
    if args is None:
        # gate probe: mpe before any (successful) run
        fam = spec["cls"]
        if fam.startswith("SSI") or fam.startswith("pLSCF"):
            args = {"sel_freq": [1.0], "order": 2}
        elif fam.startswith("FDD"):
            args = {"sel_freq": [1.0], "DF": 0.5}
        else:
            args = {"sel_freq": [1.0], "DF1": 0.5, "DF2": 1.5}
    op = {"op": "mpe", "setup": si, "name": spec["name"], "args": args}
    if rng.random() < 0.4:
        op["reuse_list"] = True
    prev = [o for o in wd.res["ops"] if o.get("op") == "mpe" and o.get("name") == spec["name"] and o.get("setup") == si]
    if prev and st.ran and rng.random() < 0.35 and isinstance(args.get("sel_freq"), list):
        # the analyst repeats the extraction with everything as before except the selection itself (one frequency
        # dropped, or another set of peaks), passing the same list object again
        again = copy.deepcopy(prev[-1]["args"])
        if isinstance(again.get("sel_freq"), list):
            sel = list(again["sel_freq"])
            again["sel_freq"] = sel[:-1] if len(sel) > 1 and rng.random() < 0.5 else list(args["sel_freq"])
            if again["sel_freq"] != sel:
                op["args"] = again
                op["reuse_list"] = True
    return op


def _fault_exc(rng, site):
    """What the k-th numerical call raises: the failure typical for that routine, or - one time in five - the
    user's Ctrl-C (a BaseException: `except Exception` blocks that swallow numerical errors by design do not stop it,
    so the session carries on from states ordinary errors never leave behind)."""
    return "KeyboardInterrupt" if rng.random() < 0.2 else exc_for_site(site)


def _with_fault(rng, wd, swarm, op):
    if not swarm or not swarm["faulty"] or rng.random() >= swarm["pfault"]:
        return op
    ai = wd.find(op["setup"], op["name"])
    if ai is None:
        return op
    st = wd.st[ai]
    if not st.has_params or st.added_to is None:
        return op
    if op["op"] == "run":
        calls = wd.reference(ai)["calls"]
    else:
        if not st.ran or st.unknown or st.stale:
            return op
        ent = wd.reference(ai)
        if ent["exc"] is not None:
            return op
        calls = wd.reference(ai, want_mpe=op["args"])["calls"]
    if not calls:
        return op
    lin = [i for i, q in enumerate(calls) if exc_for_site(q) == "LinAlgError"]
    k = rng.choice(lin) if lin and rng.random() < 0.5 else rng.randrange(len(calls))
    op["fault"] = {"kind": "num_exc", "call": k, "exc": _fault_exc(rng, calls[k]), "site": calls[k]}
    return op


def _with_disk_fault(rng, swarm, op, read=False):
    if swarm and swarm["faulty"] and rng.random() < 0.35:
        site = "fs.read" if read and rng.random() < 0.7 else rng.choice(["fs.open", "fs.write", "fs.close"]) if not read else "fs.open"
        op["fault"] = {"kind": "disk_err", "site": site, "call": 0, "exc": "OSError"}
    return op


def _poser_op(rng, wd):
    nset = len(wd.setups)
    r = rng.random()
    if r < 0.08:
        idx = []
    elif r < 0.2:
        idx = [rng.randrange(nset)]
    else:
        k = rng.randint(2, 4)
        idx = [rng.randrange(nset) for _ in range(k)] if rng.random() < 0.15 else rng.sample(range(nset), min(k, nset))
    n0 = len(wd.members(idx[0])) if idx else 1
    ln = n0 if rng.random() < 0.75 else max(0, n0 + rng.choice([-1, 1, 2]))
    if rng.random() < 0.08:
        ln = 0  # an explicitly empty list of names
    return {"op": "poser", "setups": idx, "names": [f"g{i}" for i in range(ln)], "merge": rng.random() < 0.7}


def poser_script(rng, w):
    """Directed class: drive every setup to the acceptable state, perturb one aspect, construct."""
    ns = len(w["setups"])
    base = [i for i, a in enumerate(w["algs"]) if a["name"] != "spare"]
    spare = [i for i, a in enumerate(w["algs"]) if a["name"] == "spare"][0]
    steps = []
    order = list(range(ns))
    rng.shuffle(order)
    for si in order:
        mine = [i for i in base if w["algs"][i]["home"] == si]
        if len(mine) > 1 and rng.random() < 0.4:
            for i in mine:  # one add_algorithms call per algorithm: the registration order must be the same
                steps.append(lambda r, wd, si=si, i=i: {"op": "add", "setup": si, "algs": [i]})
        else:
            steps.append(lambda r, wd, si=si, mine=mine: {"op": "add", "setup": si, "algs": mine})
    n_add = len(steps)  # the add steps stay in front
    for si in order:
        if rng.random() < 0.5:
            steps.append(lambda r, wd, si=si: {"op": "run_all", "setup": si})
        else:
            for i in [i for i in base if w["algs"][i]["home"] == si]:
                steps.append(lambda r, wd, si=si, i=i: {"op": "run", "setup": si, "name": w["algs"][i]["name"]})
    for si in order:
        for i in [i for i in base if w["algs"][i]["home"] == si]:
            steps.append(lambda r, wd, si=si, i=i: _mpe_op(r, wd, si, i, nmodes=2))
    if rng.random() < 0.15:
        tail = steps[n_add:]
        rng.shuffle(tail)  # interleave runs/mpes of different setups (an mpe before its run becomes a gate probe)
        steps[n_add:] = tail
    p = rng.random()
    victim = rng.randrange(ns)
    vm = [i for i in base if w["algs"][i]["home"] == victim]
    if p < 0.30:
        pass  # acceptable as is
    elif p < 0.45:
        steps.append(lambda r, wd: {"op": "run", "setup": victim, "name": w["algs"][r.choice(vm)]["name"]})  # re-run clears the modes
    elif p < 0.6:
        steps.append(lambda r, wd: {"op": "add", "setup": w["algs"][spare]["home"], "algs": [spare]})  # extra / other class
    elif p < 0.7 and len(vm) >= 2:
        steps.append(lambda r, wd: {"op": "add", "setup": victim, "algs": list(reversed(vm))})  # re-add: order unchanged (dict)
    elif p < 0.8:
        steps.append(lambda r, wd: {"op": "restart", "setup": victim, "path": f"sim:/s{victim}_a.pkl"})
    else:
        def _sp(r, wd):
            ai = r.choice(vm)
            return {"op": "set_params", "alg": ai, "params": gen_params(r, w["algs"][ai]["cls"], 600, 2)}

        steps.append(_sp)
    steps.append(lambda r, wd: _poser_op(r, wd) if r.random() < 0.25 else
                 {"op": "poser", "setups": (list(range(ns)) if r.random() < 0.8 else r.sample(range(ns), ns)),
                  "names": [f"g{i}" for i in range(0 if r.random() < 0.06 else len(wd.members(0)) + (0 if r.random() < 0.8 else 1))], "merge": True})
    return steps


# ---------------------------------------------------------------------------------------------
# applying one operation to the real world and the model
# ---------------------------------------------------------------------------------------------
def _arm(wd, op):
    f = op.get("fault")
    wd.plan.reset()
    if f:
        site = "num" if f["kind"] == "num_exc" else f["site"]
        wd.plan.arm(site, f["call"], f["exc"], f["kind"])


def apply_op(wd: World, op, step):
    k = op["op"]
    wd.last_op = op
    before = wd.snapshot()
    outcome = "ok"
    allow = {}
    w = wd.w
    if k == "add":
        si = op["setup"]
        setup = wd.setups[si]
        names_before = list(getattr(setup, "algorithms", {}) or {})
        try:
            setup.add_algorithms(*[wd.algs[i] for i in op["algs"]])
        except Exception as e:
            wd.violate("gate.add_raises", step, f"add_algorithms raised {type(e).__name__}: {e}")
            return "exc"
        for i in op["algs"]:
            st = wd.st[i]
            if st.added_to is not None and st.added_to != si:
                wd.inc("probe.moved_between_setups")
            st.added_to = si
            if i not in wd.order[si]:
                wd.order[si].append(i)
            for j in wd.members(si):
                if j != i and w["algs"][j]["name"] == w["algs"][i]["name"]:
                    wd.st[j].added_to = None  # same name: the later registration replaces the earlier one ...
                    if j in wd.order[si]:
                        wd.order[si].remove(i)  # ... and takes over its place in the registration order
                        wd.order[si][wd.order[si].index(j)] = i
                    wd.inc("probe.name_collision_replaces_registration")
            a = wd.algs[i]
            if a.data is not setup.data and h_data(a.data) != h_data(setup.data):
                wd.violate("bind.data", step, f"{w['algs'][i]['name']} was not bound to the setup's current data", i)
                return outcome
            if st.ran:
                wd.inc("probe.readd_after_run")
                if before["algs"][i]["data"] != h_data(a.data) or before["algs"][i]["fs"] != a.fs:
                    st.stale = True
                    wd.inc("probe.rebound_to_new_data_generation")
        for i in wd.members(si):
            if w["algs"][i]["name"] not in setup.algorithms or setup.algorithms[w["algs"][i]["name"]] is not wd.algs[i]:
                wd.violate("bind.data", step, f"{w['algs'][i]['name']} is no longer registered in its setup", i)
                return outcome
        allow = {"data": set(op["algs"])}
    elif k in ("run", "run_all"):
        outcome = _do_run(wd, op, step, before)
        return outcome
    elif k == "mpe":
        outcome = _do_mpe(wd, op, step, before)
        return outcome
    elif k == "set_params":
        ai = op["alg"]
        cls = _classes()[w["algs"][ai]["cls"]]
        if op["params"] is None:
            wd.algs[ai].set_run_params(None)
            wd.st[ai].has_params = False
            wd.inc("probe.run_params_removed")
        else:
            wd.algs[ai].set_run_params(cls.RunParamCls(**copy.deepcopy(op["params"])))
            wd.st[ai].has_params = True
        wd.st[ai].cur_params = copy.deepcopy(op["params"])
        wd.st[ai].clean_params = copy.deepcopy(wd.algs[ai].run_params)
        if wd.st[ai].ran:
            wd.inc("probe.params_changed_after_run")
            wd.st[ai].stale = True
        allow = {"params": {ai}}
    elif k == "preproc":
        si = op["setup"]
        setup = wd.setups[si]
        try:
            if op["kind"] == "detrend":
                setup.detrend_data()
            elif op["kind"] == "decimate":
                setup.decimate_data(q=op["q"])
            else:
                setup.filter_data(Wn=op["Wn"], order=op["order"])
        except Exception:
            outcome = "exc"  # C14 judges preprocessing; here it only has to leave everybody else alone
        if wd.members(si):
            wd.inc("probe.preproc_between_adds")
        allow = {"setup": {si}}
    elif k == "save":
        outcome = _do_save(wd, op, step)
    elif k == "load_check":
        outcome = _do_load_check(wd, op, step)
    elif k == "new_record":
        # the user is done with this record: the setup, its algorithms and its arrays are dropped (really dropped: the
        # harness lets go of every reference and collects), and the next record of the same kind - same shapes, same
        # sampling, same algorithm classes and parameters - is analysed in new objects. Whatever the package remembers
        # about the old objects (by identity, say) must not reach the new ones.
        import gc

        sj = op["setup"]
        wd.record_gen[sj] = wd.record_gen.get(sj, 0) + 1
        nxt = build_arrays(w, only=sj, gen=wd.record_gen[sj])[0]  # content of the next record, built beforehand
        old_ids = {id(a_) for a_ in wd.arrays[sj]}
        wd.refs.clear()
        before = None
        wd.setups[sj] = None
        for i, a_ in enumerate(w["algs"]):
            if a_["home"] == sj or wd.st[i].added_to == sj:
                wd.algs[i] = None
        wd.arrays[sj] = None
        gc.collect()
        # address reuse is the allocator's choice, i.e. the simulator's: where it can, the new record's array object
        # lands exactly where the old one lived (what CPython does on its own in a plain `for record in stream:` loop)
        new = []
        for a_ in nxt:
            pool = []
            hit = None
            for _ in range(256):
                c_ = a_.copy(order="K")
                if id(c_) in old_ids:
                    hit = c_
                    break
                pool.append(c_)
            if hit is not None:
                wd.inc("probe.new_array_at_the_address_of_the_old_one")
            new.append(hit if hit is not None else pool[0])
            del pool
        del nxt
        wd.arrays[sj] = new
        wd.user_hash[sj] = [h_array(a_) for a_ in wd.arrays[sj]]
        _fresh_setup(wd, sj)
        wd.inc("probe.next_record_in_new_objects")
        before = wd.snapshot()
    elif k == "restart":
        outcome = _do_restart(wd, op, step)
        if wd.stop:
            return outcome
        before = wd.snapshot()  # object identities changed; contents were compared by _do_restart
    elif k == "save_crash":
        outcome = _do_crash(wd, op, step)
        if wd.stop:
            return outcome
        before = wd.snapshot()
    elif k == "poser":
        outcome = _do_poser(wd, op, step)
    elif k == "bare_gate":
        outcome = _do_bare_gate(wd, op, step)
    elif k == "user_edit":
        # the user changes the samples of a record in place (flips the sign of a channel mounted the wrong way round,
        # reuses one acquisition buffer): the bound array object is the same, its content is not - the next run must be
        # the run on the CURRENT content, whatever the instance computed from the old one
        i = op["alg"]
        arr = getattr(wd.algs[i], "data", None)
        if isinstance(arr, np.ndarray) and arr.ndim == 2 and arr.flags.writeable and np.issubdtype(arr.dtype, np.floating):
            arr[:, op["channel"] % arr.shape[1]] *= -1.0
            wd.user_hash = [[h_array(a_) for a_ in arrs] for arrs in wd.arrays]
            # objects dropped by an earlier restart may hold the very same user array: what they look like now is the
            # user's doing, the aliasing check starts again from here
            wd.shadows = [(o_, canon_setup(o_)) for o_, _ in wd.shadows]
            wd.refs.clear()
            wd.inc("probe.user_edited_the_bound_array_in_place")
            before = wd.snapshot()
        else:
            outcome = "skipped"
    elif k == "branch_copy":
        # the user branches off a setup with copy.copy (a shallow copy: a new setup object sharing the attribute objects
        # of the original - legal, every setup method re-binds attributes instead of mutating them), works on the branch
        # and comes back: the original must not have noticed
        si = op["setup"]
        setup = wd.setups[si]
        reg_before = [(n_, id(o_)) for n_, o_ in (getattr(setup, "algorithms", {}) or {}).items()]
        try:
            br = copy.copy(setup)
            cls = _classes()[op["cls"]]
            extra = cls(name="branch_only", **copy.deepcopy(op["params"]))
            br.add_algorithms(extra)
            try:
                # whatever fails on the branch for reasons of its own (detrending a record with a dropout, a run that
                # cannot succeed with these parameters) is the branch's business; only the original's registry is judged
                if op.get("preproc"):
                    br.detrend_data()
                    br.add_algorithms(cls(name="branch_only_2", **copy.deepcopy(op["params"])))
                br.run_by_name("branch_only")
            except Exception:
                pass
        except Exception as e:
            wd.violate("gate.add_raises", step, f"copying a setup and adding an algorithm to the copy raised {type(e).__name__}: {e}")
            return "exc"
        reg_after = [(n_, id(o_)) for n_, o_ in (getattr(setup, "algorithms", {}) or {}).items()]
        wd.inc("probe.worked_on_a_shallow_copy_of_a_setup")
        if reg_after != reg_before:
            wd.violate("iso.registry_changed", step,
                       f"adding algorithms to a shallow copy of setup {si} changed the ORIGINAL's registry: "
                       f"{[n_ for n_, _ in reg_before]} -> {[n_ for n_, _ in reg_after]}")
            return outcome
        del br, extra
    elif k == "recreate":
        # the user builds the algorithm object anew (re-executed notebook cell): same class, same arguments, constructed NOW -
        # after whatever ran before. Only for an object that is not registered anywhere at the moment.
        i = op["alg"]
        if wd.st[i].added_to is None:
            wd.algs[i] = make_alg(w["algs"][i])
            wd.st[i] = AlgState(w["algs"][i])
            wd.inc("probe.algorithm_object_constructed_late")
            before = wd.snapshot()
        else:
            outcome = "skipped"
    else:
        raise AssertionError(k)
    if wd.stop:
        return outcome
    wd.check_isolation(before, wd.snapshot(), step, allow)
    return outcome


def _expect_order(wd, si):
    """Members of a setup in registration order, from the model's own bookkeeping (not read back from the setup)."""
    return [i for i in wd.order[si] if wd.st[i].added_to == si]


def _do_run(wd, op, step, before):
    w = wd.w
    si = op["setup"]
    setup = wd.setups[si]
    if op["op"] == "run":
        ai = wd.find(si, op["name"])
        targets = [ai] if ai is not None else []
    else:
        ai = None
        targets = _expect_order(wd, si)
    _arm(wd, op)
    try:
        if op["op"] == "run":
            setup.run_by_name(op["name"])
        else:
            setup.run_all()
        rexc = None
    except (Exception, KeyboardInterrupt) as e:
        rexc = e
    fired = list(wd.plan.fired)
    after = wd.snapshot()
    # what must have happened, from isolated execution. The reference is computed AFTER the real call so that
    # the real call meets exactly the process state its real predecessors left (a reference computed first would
    # repeat the same computation just before it and hide e.g. a cache keyed too coarsely).
    exp = {}
    for i in targets:
        st = wd.st[i]
        if not st.has_params:
            exp[i] = ("gate", None)
        else:
            ent = wd.reference(i)
            if ent["data_mutated"]:
                wd.violate("iso.data_mutated", step, f"{w['algs'][i]['cls']}.run() alone in a fresh setup modified the bound data", i)
                return "exc"
            if ent["exc"] and ent.get("direct_ok"):
                wd.violate("gate.refused_met", step,
                           f"{w['algs'][i]['name']}: data, sampling frequency (fs={wd.algs[i].fs!r}) and run parameters are all set and "
                           f"{w['algs'][i]['cls']}.run() completes when called directly, yet running it through a setup raises {ent['exc']}", i)
                return "exc"
            exp[i] = ("exc", ent["exc"]) if ent["exc"] else ("ok", ent["fields"])
    outcome = "ok" if rexc is None else "exc"
    if op["op"] == "run" and ai is None:
        if rexc is None:
            wd.violate("gate.no_exc", step, f"run_by_name({op['name']!r}) on a setup without that algorithm did not raise")
            return outcome
        wd.inc("probe.gate_unknown_name")
        wd.check_isolation(before, after, step, {})
        return "gate"
    if fired:
        # relaxed, narrowly: the member that was executing when the fault fired may fail (its stored result then stays
        # what it was) or - where pyOMA2 swallows the error by design - store a result that is not judged; every other
        # member either completed (equals its isolated reference) or was not reached (unchanged). What is never
        # acceptable: the call returns normally and leaves behind a result that belongs to other parameters or data.
        wd.inc("fault.fired.interrupt" if fired[0]["exc"] == "KeyboardInterrupt" else "fault.fired.num_exc")
        outcome = "fault"
        wd.inc("probe.fault_propagated" if rexc is not None else "probe.swallowed_fault")
        if op["op"] == "run_all":
            wd.inc("probe.fault_inside_run_all")
        touched = set()
        odd = []
        for i in targets:
            st = wd.st[i]
            b_, a_ = before["algs"][i]["result"], after["algs"][i]["result"]
            kind, val = exp[i]
            if kind == "ok" and a_ == val:
                if a_ != b_ or not st.ran:
                    touched.add(i)
                st.ran, st.mpe, st.unknown, st.mpe_args, st.stale = True, "no", False, None, False
                st.result_after_run = copy.deepcopy(wd.algs[i].result)
            elif a_ == b_:
                if rexc is None and kind == "ok" and b_ is not None and len(targets) == 1 and not st.unknown:
                    # (an earlier result that was itself produced under a swallowed fault is not "the earlier good
                    # result": the same fault at the same place reproduces the same unjudged content)
                    wd.violate("fault.wrong_state", step,
                               f"the run of {w['algs'][i]['name']} hit a numerical failure, the call returned normally, and the "
                               f"stored result is still the earlier one, which differs from what its current parameters and "
                               f"data give", i)
                    return outcome
                continue
            else:
                odd.append(i)
        # a raise may also come from ANOTHER member that fails on its own (no parameters, bad parameters): then the
        # member with the unexplained result is the one in which the fault was swallowed
        natural = any(exp[j][0] in ("exc", "gate") for j in targets if j not in odd)
        if rexc is not None and odd and not natural:
            i = odd[0]
            wd.violate("fault.wrong_state", step,
                       f"the call raised {type(rexc).__name__} under an injected fault, yet {w['algs'][i]['name']} now holds a result "
                       f"that is neither its previous one nor that of a completed run", i)
            return outcome
        if len(odd) > 1:
            wd.violate("fault.wrong_state", step, "one injected fault left more than one algorithm with an unexplained result", odd[1])
            return outcome
        for i in odd:
            st = wd.st[i]
            st.unknown, st.ran, st.mpe = True, True, "unknown"  # that one result is not judged
            st.result_after_run = None
            touched.add(i)
        wd.check_isolation(before, after, step, {"result": touched, "params": set(targets)})
        return outcome
    # fault-free: every target either ran (equals its reference) or the call stopped at it
    stopped = False
    allow = set()
    for i in targets:
        st = wd.st[i]
        kind, val = exp[i]
        name = w["algs"][i]["name"]
        b, a = before["algs"][i]["result"], after["algs"][i]["result"]
        if stopped:
            if a != b:
                wd.violate("iso.other_result", step, f"run_all failed earlier but {name} changed afterwards", i)
                return outcome
            continue
        if kind == "gate":
            wd.inc("probe.gate_no_params")
            if rexc is None:
                wd.violate("gate.no_exc", step, f"{name} has no run parameters but running it did not raise", i)
                return outcome
            if a != b:
                wd.violate("gate.stored", step, f"{name} has no run parameters, the run raised, yet a result was stored", i)
                return outcome
            stopped = True
            outcome = "gate"
        elif kind == "exc":
            wd.inc("fault.fired.nat_exc")
            if rexc is None:
                wd.violate("exc.type_neq_ref", step, f"{name}: the isolated run raises {val}, the run in this history returned", i)
                return outcome
            if type(rexc).__name__ != val:
                wd.violate("exc.type_neq_ref", step, f"{name}: isolated run raises {val}, here {type(rexc).__name__}: {rexc}", i)
                return outcome
            if a != b:
                wd.violate("gate.stored", step, f"{name}: the run raised {val} yet its stored result changed", i)
                return outcome
            stopped = True
            outcome = "nat_exc"
        else:
            if a != val:
                if rexc is not None and a == b and op["op"] == "run":
                    wd.violate("exc.type_neq_ref", step, f"{name}: the isolated run succeeds, here it raised {type(rexc).__name__}: {rexc}", i)
                    return outcome
                if rexc is not None and a == b:
                    # run_all may legitimately have visited a failing member first (order is not promised)
                    stopped = True
                    continue
                wd.violate("run.neq_ref", step,
                           f"{name} ({w['algs'][i]['cls']}): result differs from the isolated run in fields {diff_fields(a, val)}", i)
                return outcome
            allow.add(i)
            wd.inc("probe.run_ok_equal_to_isolated_reference")
            if st.ran:
                wd.inc("probe.repeat_run")
            if any(wd.st[j].ran for j in range(len(wd.st)) if j != i and getattr(wd.algs[j], 'data', None) is wd.algs[i].data):
                wd.inc("probe.run_after_other_alg_same_array")
            if st.loaded:
                wd.inc("probe.run_after_restart")
            st.ran, st.mpe, st.unknown, st.mpe_args, st.stale = True, "no", False, None, False
            st.result_after_run = copy.deepcopy(wd.algs[i].result)
    if rexc is not None and not stopped:
        wd.violate("exc.type_neq_ref", step, f"every member runs in isolation, but the call raised {type(rexc).__name__}: {rexc}")
        return outcome
    wd.check_isolation(before, after, step, {"result": allow, "params": set(targets)})
    return outcome


def _do_mpe(wd, op, step, before):
    """Extraction is a function of (the stored result, the current parameters, the arguments): the reference applies
    the same mpe to a private copy of exactly what the algorithm held before the call, under the pristine package
    state. (The stored result itself was judged against an isolated run when it was produced; comparing with a
    fresh run here would be unfair after a restart, because pickle changes the memory layout of the bound data.)"""
    w = wd.w
    si = op["setup"]
    setup = wd.setups[si]
    ai = wd.find(si, op["name"])
    if ai is None:
        try:
            setup.mpe(op["name"], **copy.deepcopy(op["args"]))
            wd.violate("gate.no_exc", step, f"mpe({op['name']!r}) on a setup without that algorithm did not raise")
        except Exception:
            pass
        return "gate"
    st = wd.st[ai]
    alg = wd.algs[ai]
    name = w["algs"][ai]["name"]
    pre = None
    if alg.result is not None:
        pre = copy.copy(alg)
        if st.result_after_run is not None and st.clean_params is not None and not st.unknown:
            # "fresh run + this mpe": nothing an earlier mpe call stored can reach the reference
            pre.result = copy.deepcopy(st.result_after_run)
            pre.run_params = copy.deepcopy(st.clean_params)
            wd.inc("probe.mpe_reference_from_post_run_snapshot")
        else:
            # after a restart (pickle changed the memory layout) or a swallowed fault: what the algorithm holds now
            pre.result = copy.deepcopy(alg.result)
            pre.run_params = copy.deepcopy(alg.run_params)
    call_args = copy.deepcopy(op["args"])
    if op.get("reuse_list") and isinstance(call_args.get("sel_freq"), list):
        # the user keeps ONE list of selected frequencies per algorithm, edits it in place and passes it again
        lst = wd.sel_lists.setdefault(ai, [])
        if any(j != ai and a_ is not None and getattr(getattr(a_, "run_params", None), "sel_freq", None) is lst
               for j, a_ in enumerate(wd.algs)):
            # the list has meanwhile become part of ANOTHER algorithm's parameters (a parameter object the user shares
            # between algorithms kept it): editing it would be the user changing that algorithm's parameters - a new list
            lst = wd.sel_lists[ai] = []
        lst[:] = call_args["sel_freq"]
        call_args["sel_freq"] = lst
        wd.inc("probe.mpe_with_the_users_reused_list_object")
    _arm(wd, op)
    try:
        setup.mpe(op["name"], **call_args)
        rexc = None
    except (Exception, KeyboardInterrupt) as e:
        rexc = e
    fired = list(wd.plan.fired)
    after = wd.snapshot()
    b, a = before["algs"][ai]["result"], after["algs"][ai]["result"]
    allow = {"params": {ai}, "result": {ai}}
    if not st.ran or pre is None:
        wd.inc("probe.gate_mpe_before_run")
        if rexc is None:
            wd.violate("gate.no_exc", step, f"mpe on {name}, which has never run, did not raise", ai)
            return "gate"
        if a != b:
            wd.violate("gate.stored", step, f"mpe on {name} before any run raised, yet a result was stored", ai)
            return "gate"
        if after["algs"][ai]["params"] != before["algs"][ai]["params"]:
            wd.violate("gate.stored", step,
                       f"mpe on {name} before any run raised {type(rexc).__name__}, yet its run parameters were overwritten "
                       f"with the extraction arguments", ai)
            return "gate"
        wd.check_isolation(before, after, step, {})
        return "gate"
    if fired:
        wd.inc("fault.fired.interrupt" if fired[0]["exc"] == "KeyboardInterrupt" else "fault.fired.num_exc")
        st.mpe = "unknown"
        wd.inc("probe.fault_propagated" if rexc is not None else "probe.swallowed_fault")
        wd.check_isolation(before, after, step, allow)
        return "fault"
    wd.plan.reset()
    tok = _S["guard"].enter()
    try:
        pre.mpe(**copy.deepcopy(op["args"]))
        pexc = None
    except Exception as e:
        pexc = e
    finally:
        _S["guard"].exit(tok)
    want = field_hashes(pre.result)
    if (pexc is None) != (rexc is None) or (pexc is not None and type(pexc) is not type(rexc)):
        wd.violate("exc.type_neq_ref", step,
                   f"mpe on {name}: the same extraction on a private copy of its result "
                   f"{'returns' if pexc is None else 'raises ' + type(pexc).__name__}, in this history it "
                   f"{'returned' if rexc is None else 'raised ' + type(rexc).__name__ + ': ' + str(rexc)}", ai)
        return "exc"
    if rexc is not None:
        # both raise the same exception type: what a failed extraction leaves behind (typically the outputs of an earlier
        # mpe) is not specified by the property - not judged until the next successful run or mpe overwrites it
        wd.inc("fault.fired.nat_exc")
        if a != b:
            st.mpe = "unknown"
        wd.check_isolation(before, after, step, allow)
        return "nat_exc"
    if a != want:
        wd.violate("mpe.neq_ref", step, f"mpe on {name}: result differs from the same extraction on a private copy of its "
                                         f"stored result in fields {diff_fields(a, want)}", ai)
        return "ok"
    if after["algs"][ai]["params"] != h_obj(pre.run_params):
        # not judged: the property says nothing about what the parameter object holds after an extraction, and an
        # implementation may legitimately have recorded things in it during the run
        wd.inc("probe.params_after_mpe_differ_from_isolated_extraction")
    fn = getattr(pre.result, "Fn", None)
    st.mpe = "no" if fn is None else "yes"
    wd.inc("probe.mpe_ok_equal_to_isolated_reference")
    if st.mpe_args is not None:
        wd.inc("probe.repeat_mpe")
    if st.loaded:
        wd.inc("probe.mpe_after_restart")
    if st.stale:
        wd.inc("probe.mpe_on_result_of_older_parameters_or_data")
    st.mpe_args = copy.deepcopy(op["args"])
    wd.check_isolation(before, after, step, allow)
    return "ok"


# -- persistence --------------------------------------------------------------------------------
# Disk model: for every path the list of records {"snap": canonical setup, "states": model states} that a load
# may legitimately return, plus whether the latest save to it completed. A save that fails or is cut by a crash
# may leave the old content (atomic implementations), the new content, or something unreadable - never a setup
# that was not saved there.
def _record(wd, si):
    return {"snap": canon_setup(wd.setups[si]), "states": {i: copy.copy(wd.st[i]) for i in wd.members(si)}, "setup": si,
            "order": list(wd.order[si])}


def _match(wd, path, got):
    for rec in reversed(wd.saved.get(path, [])):
        if rec["snap"] == got:
            return rec
    return None


def _do_save(wd, op, step):
    wd.fs.activate()
    try:
        return _do_save_inner(wd, op, step)
    finally:
        wd.fs.deactivate()


def _do_save_inner(wd, op, step):
    si, path = op["setup"], op["path"]
    gen = _S["gen"]
    rec = _record(wd, si)
    wd.fs.begin_op()
    _arm(wd, op)
    try:
        gen.save_to_file(wd.setups[si], path)
        rexc = None
    except Exception as e:
        rexc = e
    fired = list(wd.plan.fired)
    if fired:
        wd.inc("fault.fired.disk_err")
        if rexc is None:
            wd.violate("persist.err_swallowed", step, f"the disk reported {fired[0]['site']} failure during save_to_file but the call returned normally")
            return "fault"
        wd.saved[path] = wd.saved.get(path, []) + [rec]
        wd.complete[path] = False
        return "fault"
    if rexc is not None:
        wd.violate("persist.save_raises", step, f"save_to_file raised {type(rexc).__name__}: {rexc}")
        return "exc"
    wd.saved[path] = [rec]
    wd.complete[path] = True
    wd.last_good[si] = path
    if path in wd.fs.files:
        wd.res["sets"].setdefault("pickle_bytes", set()).add(str(len(wd.fs.files[path]) // 10000 * 10000))
    return "ok"


def _load(wd, path):
    return _S["gen"].load_from_file(path)


def _do_load_check(wd, op, step):
    wd.fs.activate()
    try:
        return _do_load_check_inner(wd, op, step)
    finally:
        wd.fs.deactivate()


def _do_load_check_inner(wd, op, step):
    path = op["path"]
    wd.fs.begin_op()
    _arm(wd, op)
    try:
        obj = _load(wd, path)
        rexc = None
    except Exception as e:
        rexc, obj = e, None
    fired = list(wd.plan.fired)
    if fired:
        wd.inc("fault.fired.disk_err")
        if rexc is None:
            wd.violate("persist.err_swallowed", step, f"the disk reported a {fired[0]['site']} failure during load_from_file but the call returned an object")
        return "fault"
    if rexc is not None:
        if wd.complete.get(path):
            wd.violate("persist.neq", step, f"a file written by a successful save_to_file cannot be loaded: {type(rexc).__name__}: {rexc}")
        return "exc"
    got = canon_setup(obj)
    if _match(wd, path, got) is None:
        wd.violate("persist.neq" if wd.complete.get(path) else "persist.garbage_load", step,
                   "load_from_file returned a setup that differs from what was saved to that file: "
                   + _canon_diff(got, [r["snap"] for r in wd.saved.get(path, [])]))
        return "ok"
    wd.shadows.append((obj, got))
    wd.inc("probe.load_equal")
    return "ok"


def _canon_diff(got, snaps):
    if not snaps:
        return "nothing was ever saved there"
    s = snaps[-1]
    out = []
    for k in ("cls", "data", "fs"):
        if got.get(k) != s.get(k):
            out.append(k)
    ga, sa = got.get("algs", []), s.get("algs", [])
    if [a["name"] for a in ga] != [a["name"] for a in sa]:
        out.append("algorithm names")
    for a, b in zip(ga, sa):
        for k in ("cls", "params", "result", "data", "fs", "dt"):
            if a.get(k) != b.get(k):
                out.append(f"{a['name']}.{k}")
    return ", ".join(out) or "?"


def _adopt(wd, si, obj):
    """Continue the history on a loaded setup: rebind the world's handles by algorithm name."""
    wd.setups[si] = obj
    algs = getattr(obj, "algorithms", {}) or {}
    for i in wd.members(si):
        nm = wd.w["algs"][i]["name"]
        wd.algs[i] = algs[nm]
        wd.st[i].loaded = True
        wd.st[i].result_after_run = None


def _do_restart(wd, op, step):
    wd.fs.activate()
    try:
        return _do_restart_inner(wd, op, step)
    finally:
        wd.fs.deactivate()


def _do_restart_inner(wd, op, step):
    si, path = op["setup"], op["path"]
    rec = _record(wd, si)
    snap = rec["snap"]
    wd.fs.begin_op()
    wd.plan.reset()
    try:
        _S["gen"].save_to_file(wd.setups[si], path)
    except Exception as e:
        wd.violate("persist.save_raises", step, f"save_to_file raised {type(e).__name__}: {e}")
        return "exc"
    wd.saved[path] = [rec]
    wd.complete[path] = True
    wd.last_good[si] = path
    old = wd.setups[si]
    try:
        obj = _load(wd, path)
    except Exception as e:
        wd.violate("persist.neq", step, f"a file written by a successful save_to_file cannot be loaded: {type(e).__name__}: {e}")
        return "exc"
    got = canon_setup(obj)
    if got != snap:
        wd.violate("persist.neq", step, "the loaded setup differs from the saved one: " + _canon_diff(got, [snap]))
        return "ok"
    if obj is old or any(a is b for a, b in zip((getattr(obj, "algorithms", {}) or {}).values(), (getattr(old, "algorithms", {}) or {}).values())):
        wd.violate("persist.alias", step, "load_from_file returned the live objects instead of an independent copy")
        return "ok"
    wd.shadows.append((old, snap))  # the dropped originals must not change when the copy is used
    wd.sel_lists.clear()  # ... and the user starts new lists of selected frequencies for the loaded objects
    _adopt(wd, si, obj)
    wd.inc("probe.restart")
    if any(wd.st[i].ran and wd.st[i].mpe != "yes" for i in wd.members(si)):
        wd.inc("probe.restart_between_run_and_mpe")
    return "ok"


def _do_crash(wd, op, step):
    wd.fs.activate()
    try:
        return _do_crash_inner(wd, op, step)
    finally:
        wd.fs.deactivate()


def _do_crash_inner(wd, op, step):
    """The process dies inside save_to_file; every live object is lost; the world restarts from disk."""
    si, path = op["setup"], op["path"]
    gen = _S["gen"]
    rec = _record(wd, si)
    import pickle

    total = len(pickle.dumps(wd.setups[si]))  # size of the complete pickle, to place the crash inside it
    cut = int(op["frac"] * total)
    wd.fs.begin_op(crash_after=cut)
    wd.plan.reset()
    crashed = False
    try:
        gen.save_to_file(wd.setups[si], path)
    except SimCrash:
        crashed = True
    except Exception as e:
        wd.violate("persist.save_raises", step, f"save_to_file raised {type(e).__name__}: {e}")
        return "exc"
    wd.fs.begin_op()
    wd.inc("fault.fired.save_crash" if crashed else "fault.configured_not_fired")
    if crashed:
        wd.saved[path] = wd.saved.get(path, []) + [rec]
        wd.complete[path] = False
    else:
        wd.saved[path] = [rec]
        wd.complete[path] = True
        wd.last_good[si] = path
    # restart of the whole world from what the disk holds
    for sj in range(len(wd.setups)):
        tries = [path] if sj == si else []
        if wd.last_good.get(sj) and wd.last_good[sj] not in tries:
            tries.append(wd.last_good[sj])
        restored = False
        for p in tries:
            if not any(r["setup"] == sj for r in wd.saved.get(p, [])):
                continue
            try:
                obj = _load(wd, p)
            except Exception:
                if wd.complete.get(p):
                    wd.violate("persist.neq", step, f"the complete file {p} cannot be loaded after the crash")
                    return "fault"
                wd.inc("probe.torn_file_rejected")
                continue
            got = canon_setup(obj)
            m = _match(wd, p, got)
            if m is None:
                wd.violate("persist.garbage_load", step,
                           f"after a crash {cut}/{total} bytes into the save, load_from_file({p}) returned a setup that was never saved: "
                           + _canon_diff(got, [r["snap"] for r in wd.saved.get(p, [])]))
                return "fault"
            if p == path and sj == si and crashed:
                wd.inc("probe.torn_save_left_a_loadable_file")
            _restore_model_from(wd, sj, obj, m["states"])
            wd.order[sj] = [i for i in m.get("order", []) if wd.st[i].added_to == sj]
            restored = True
            break
        if not restored:
            _fresh_setup(wd, sj)
    return "fault"


def _restore_model_from(wd, sj, obj, states):
    names = list((getattr(obj, "algorithms", {}) or {}))
    for i, a in enumerate(wd.w["algs"]):
        if a["home"] != sj:
            continue
        if a["name"] in names and i in states:
            st = copy.copy(states[i])
            st.loaded = True
            st.result_after_run = None
            wd.st[i] = st
            wd.algs[i] = obj.algorithms[a["name"]]
        else:
            wd.st[i] = AlgState(a)
            wd.algs[i] = make_alg(a)
    wd.setups[sj] = obj


def _fresh_setup(wd, sj):
    wd.sel_lists.clear()
    wd.setups[sj] = make_setup(wd.w["setups"][sj], wd.arrays[sj], user_fs(wd.w))
    for i, a in enumerate(wd.w["algs"]):
        if a["home"] == sj or wd.st[i].added_to == sj:
            wd.algs[i] = make_alg(a)
            wd.st[i] = AlgState(a)
    wd.last_good.pop(sj, None)
    wd.order[sj] = []


# -- PoSER --------------------------------------------------------------------------------------
def poser_model(wd, op):
    """(acceptable?, reason, judged?) from the abstract history model."""
    idx = op["setups"]
    if len(idx) <= 1:
        return False, "fewer_than_two_setups", True
    mem = [_expect_order(wd, si) for si in idx]
    if any(not m for m in mem):
        return False, "setup_without_algorithms", True
    types = [[wd.w["algs"][i]["cls"] for i in m] for m in mem]
    if any(t != types[0] for t in types):
        return False, "type_lists_differ", True
    if len(op["names"]) != len(mem[0]):
        return False, "names_length", True
    states = [wd.st[i] for m in mem for i in m]
    if any((not s.ran) or s.mpe == "no" for s in states):
        return False, "not_run_or_no_modes", True
    if any(s.unknown or s.mpe == "unknown" for s in states):
        return None, "state_not_tracked", False
    return True, "acceptable", True


def _do_poser(wd, op, step):
    from pyoma2.setup import MultiSetup_PoSER

    want, reason, judged = poser_model(wd, op)
    setups = [wd.setups[i] for i in op["setups"]]
    ref_ind = [[0, 1][: max(1, min(2, wd.w["setups"][i]["nch"][0] - 1))] for i in op["setups"]]
    try:
        ms = MultiSetup_PoSER(ref_ind=ref_ind, single_setups=setups, names=list(op["names"]))
        rexc = None
    except Exception as e:
        rexc, ms = e, None
    wd.res["sets"].setdefault("poser_reasons", set()).add(reason)
    wd.inc("poser." + reason)
    if not judged:
        return "unjudged"
    if want and rexc is not None:
        wd.violate("poser.accept_mismatch", step, f"an acceptable configuration was rejected: {type(rexc).__name__}: {rexc}")
        return "exc"
    if not want:
        if rexc is None:
            wd.violate("poser.accept_mismatch", step, f"PoSER accepted a configuration that must be rejected ({reason})")
            return "ok"
        if not isinstance(rexc, ValueError):
            wd.violate("poser.exc_type", step, f"rejection ({reason}) raised {type(rexc).__name__} instead of ValueError: {rexc}")
        return "reject"
    if list(ms.setups) != setups or any(a is not b for a, b in zip(ms.setups, setups)):
        wd.violate("poser.accept_mismatch", step, "the accepted object does not hold the given setups in the given order")
        return "ok"
    if op.get("merge"):
        lens = set()
        for s in setups:
            for a in s.algorithms.values():
                fn = getattr(a.result, "Fn", None)
                lens.add(None if fn is None else int(np.size(fn)))
        if len(lens) == 1 and None not in lens and 0 not in lens:
            try:
                ms.merge_results()
                wd.inc("probe.poser_merged")
            except Exception:
                wd.inc("probe.poser_merge_raised")  # the merged values are C02's business
    return "accept"


def _do_bare_gate(wd, op, step):
    from pyoma2.setup import BaseSetup

    cls = _classes()[op["cls"]]
    nmin, cmin = 600, 2
    rng = random.Random(step * 7919 + len(op["cls"]))
    params = gen_params(rng, op["cls"], nmin, cmin)
    alg = cls(name="t") if op["missing"] == "params" else cls(name="t", **params)
    bs = BaseSetup()
    some = wd.setups[0]
    bs.data = None if op["missing"] in ("data", "both") else some.data
    bs.fs = None if op["missing"] in ("fs", "both") else some.fs
    raised = False
    try:
        bs.add_algorithms(alg)
        bs.run_by_name("t")
    except Exception:
        raised = True
    wd.inc("probe.gate_bare_" + op["missing"])
    if not raised:
        wd.violate("gate.no_exc", step, f"running {op['cls']} with missing {op['missing']} did not raise")
    elif getattr(alg, "result", None) is not None:
        wd.violate("gate.stored", step, f"running {op['cls']} with missing {op['missing']} raised yet stored a result")
    return "gate"


# ---------------------------------------------------------------------------------------------
# one run
# ---------------------------------------------------------------------------------------------
def run_case(seed, tier="quick", case=None, known=()):
    init_worker()
    _S["guard"].reset()  # every history starts as a fresh process would
    rng = random.Random(seed)
    if case is None:
        w = gen_world(rng)
        swarm = gen_swarm(rng, w["mode"], tier)
        ops_in = None
        nops = swarm["nops"]
        script = poser_script(rng, w) if w["mode"] == "poser" else []
        if not script and rng.random() < 0.25:
            script = tuning_script(rng, w)
            swarm["epilogue"] = True
        elif not script and rng.random() < 0.16:
            script = persist_script(rng, w)
            swarm["epilogue"] = True
        elif not script and rng.random() < 0.12:
            script = records_script(rng, w)
            swarm["epilogue"] = True
        if script:
            nops = len(script) + rng.randint(0, 2)
        epilogue = swarm["epilogue"]
    else:
        w = copy.deepcopy(case["world"])
        swarm, script = None, []
        ops_in = case["ops"]
        nops = len(ops_in)
        epilogue = case.get("extra", {}).get("epilogue", True)
    log = EventLog(seed)
    _env.set_log_debug(bool(w.get("log_debug")))
    log.add({"world": w})
    res = {"property": PROPERTY, "seed": seed, "world": w, "ops": [], "violations": [], "known": [],
           "counters": {}, "states": [], "sig": [], "sets": {}, "extra": {"epilogue": epilogue}}
    wd = World(w, res, log)
    for step in range(nops):
        if wd.stop:
            break
        op = copy.deepcopy(ops_in[step]) if ops_in is not None else gen_op(rng, wd, swarm, step, script)
        res["ops"].append(op)
        try:
            try:
                outcome = apply_op(wd, op, step)
            finally:
                wd.plan.reset()  # a fault that was armed but never reached must not fire inside a later operation
        except (IndexError, KeyError, TypeError) as e:
            if ops_in is None:
                raise
            outcome = "invalid"  # a minimiser candidate that no longer makes sense (e.g. refers to a dropped setup)
            log.add({"step": step, "invalid": type(e).__name__})
            break
        fk = op.get("fault", {}).get("kind", "")
        res["sig"].append(f"{op['op']}:{outcome}" + (f":{fk}" if fk else ""))
        res["states"].append("|".join(s.abstract() for s in wd.st))
        log.add({"step": step, "op": op, "outcome": outcome, "state": res["states"][-1],
                 "snap": h_obj(wd.snapshot()), "viol": [v["fingerprint"] for v in res["violations"]]})
    # bounded liveness / final consistency: once faults have stopped every runnable algorithm completes a
    # run equal to its isolated reference within one attempt
    if epilogue and not wd.stop:
        _epilogue(wd, len(res["ops"]))
    if not wd.stop:
        # a parameter object the USER handed to two algorithms may be changed through the other one (its run or
        # extraction), also after one of them was dropped by a restart: the user's sharing, not aliasing by persistence
        live = set(wd.user_shared_params)

        def _wo_shared(obj, c):
            c = copy.deepcopy(c)
            objs = list((getattr(obj, "algorithms", {}) or {}).values())
            for a, ca in zip(objs, c["algs"]):
                if id(getattr(a, "run_params", None)) in live:
                    ca["params"] = "<object the user shares between algorithms>"
            return c

        for obj, snap in wd.shadows:
            if _wo_shared(obj, canon_setup(obj)) != _wo_shared(obj, snap):
                wd.last_op = {"op": "final"}
                wd.violate("persist.alias", len(res["ops"]), "using a loaded setup changed the objects it was loaded from / saved from")
                break
    return _finish(res, log, wd)


def _epilogue(wd, step):
    wd.last_op = {"op": "epilogue"}
    for si in range(len(wd.setups)):
        for i in _expect_order(wd, si):
            st = wd.st[i]
            if not st.has_params:
                continue
            ent = wd.reference(i)
            if ent["exc"] is not None:
                continue
            before = wd.snapshot()
            wd.plan.reset()
            try:
                wd.setups[si].run_by_name(wd.w["algs"][i]["name"])
            except Exception as e:
                wd.violate("live.no_recovery", step, f"at the end of the history (no fault armed) {wd.w['algs'][i]['name']} still fails: {type(e).__name__}: {e}", i)
                return
            after = wd.snapshot()
            if after["algs"][i]["result"] != ent["fields"]:
                wd.violate("live.no_recovery", step,
                           f"at the end of the history (no fault armed) a clean run of {wd.w['algs'][i]['name']} differs from the isolated run in "
                           f"{diff_fields(after['algs'][i]['result'], ent['fields'])}", i)
                return
            wd.check_isolation(before, after, step, {"result": {i}, "params": {i}})
            if wd.stop:
                return
            st.ran, st.mpe, st.unknown, st.stale = True, "no", False, False
            st.result_after_run = copy.deepcopy(wd.algs[i].result)
            wd.inc("probe.epilogue_runs")


def _finish(res, log, wd):
    log.add({"violations": res["violations"]})
    res["digest"] = log.digest()
    res["log"] = log.dump()
    sig = res.pop("sig")
    res["signature"] = res["world"]["mode"] + "|" + ">".join(sig)
    res["steps"] = len(sig)
    c = res["counters"]
    res["nontrivial"] = any(c.get(k, 0) for k in (
        "probe.run_after_other_alg_same_array", "probe.repeat_run", "probe.run_after_restart",
        "probe.preproc_between_adds", "probe.mpe_after_restart", "probe.poser_merged", "poser.acceptable"))
    res["sets"] = {k: sorted(v) for k, v in res["sets"].items()}
    res["sets"]["alg_classes"] = sorted({a["cls"] for a in res["world"]["algs"]})
    kinds = [s.split(":")[0] for s in sig]
    res["opseq3"] = [">".join(kinds[:n]) for n in range(1, min(3, len(kinds)) + 1)]
    return res


def fix_ops(case):
    return case


def shrink_candidates(case):
    w, ops = case["world"], case["ops"]
    ex = case.get("extra", {})
    if ex.get("epilogue", True):
        yield {"world": w, "ops": ops, "extra": {**ex, "epilogue": False}}
    for i, op in enumerate(ops):
        if "fault" in op:
            o2 = copy.deepcopy(ops)
            del o2[i]["fault"]
            yield {"world": w, "ops": o2}
    # drop algorithms nobody refers to
    used = set()
    for op in ops:
        if op["op"] == "add":
            used.update(op["algs"])
        if op["op"] == "set_params":
            used.add(op["alg"])
    for ai in range(len(w["algs"]) - 1, -1, -1):
        if ai not in used and len(w["algs"]) > 1:
            w2 = copy.deepcopy(w)
            del w2["algs"][ai]
            o2 = copy.deepcopy(ops)
            for op in o2:
                if op["op"] == "add":
                    op["algs"] = [a - 1 if a > ai else a for a in op["algs"]]
                if op["op"] == "set_params" and op["alg"] > ai:
                    op["alg"] -= 1
            yield {"world": w2, "ops": o2}
            break
    # smaller records
    for si, s in enumerate(w["setups"]):
        if max(s["ndat"]) > 700:
            w2 = copy.deepcopy(w)
            w2["setups"][si]["ndat"] = [min(n, 700) for n in s["ndat"]]
            yield {"world": w2, "ops": ops}
    # simpler algorithm add lists
    for i, op in enumerate(ops):
        if op["op"] == "add" and len(op["algs"]) > 1:
            for j in range(len(op["algs"])):
                o2 = copy.deepcopy(ops)
                del o2[i]["algs"][j]
                yield {"world": w, "ops": o2}
        if op["op"] == "mpe" and len(op["args"].get("sel_freq", [])) > 1:
            o2 = copy.deepcopy(ops)
            o2[i]["args"]["sel_freq"] = op["args"]["sel_freq"][:1]
            yield {"world": w, "ops": o2}


def extra_coverage(agg):
    return {
        "poser_outcomes_by_model_reason": agg.group("poser."),
        "algorithm_classes_driven": sorted(agg.sets.get("alg_classes", ())),
        "isolated_references_computed": agg.n.get("ref.computed", 0),
        "isolated_reference_memo_hits": agg.n.get("ref.memo_hit", 0),
        "op_kind_sequences_len_le3_reached": len(agg.sets.get("opseq3", ())),
    }


RULE = (
    "one evaluation = one seeded history of 3-12 (thorough: up to 18) operations (add, run_by_name, run_all, mpe, set_run_params "
    "incl. withdrawal, preprocessing, save, load, restart, crash-during-save, next record in new objects with simulated address "
    "reuse, algorithm object built anew, work on a shallow copy of a setup, PoSER construction, bare-setup gate) over 1-4 real "
    "setups and 2-6 real algorithm instances of all classes, with numerical faults or Ctrl-C on the k-th numpy/scipy call of a "
    "run/mpe and disk faults inside save/load; "
    "distinct = distinct history signature (world class + sequence of (operation kind, outcome class, fault kind)); "
    "non-trivial = a successful run that follows another algorithm's run on the same array, a repeated run, a run or mpe after a "
    "restart, a preprocessing call between adds, or a PoSER acceptance"
)

COMPONENTS = {
    "real": ["pyoma2.setup.SingleSetup / MultiSetup_PreGER / BaseSetup (add_algorithms, run_by_name, run_all, mpe)",
             "all algorithm classes: FDD, EFDD, FSDD, SSIdat, SSIcov, pLSCF, FDD_MS, EFDD_MS, SSIdat_MS, SSIcov_MS, pLSCF_MS",
             "pyoma2.functions.{ssi,fdd,plscf,gen} numerical kernels on real numpy/scipy",
             "pyoma2.functions.gen.save_to_file / load_from_file with the real pickle module",
             "pyoma2.setup.MultiSetup_PoSER constructor and merge_results"],
    "stub": ["in-memory file system behind pyoma2.functions.gen.open (buffered writer, torn writes, ENOSPC, crash)",
             "transparent counting proxies for numpy / scipy.linalg / scipy.signal / curve_fit inside pyoma2.functions.* (forward to the real library; call #k can raise)"],
}

ASSUMPTIONS = [
    "the isolated reference runs on the same bound array object as the history run, so bitwise equality is a fair demand; isolation of that array is checked separately by content hashes",
    "a result produced while an injected fault was swallowed by pyOMA2's own `except Exception` blocks is not judged; the next clean run is",
    "after a failed (raising) mpe the extraction fields of that algorithm are not judged until its next successful run or mpe",
    "which member run_all visits first is not promised; partial progress before a failing member is accepted in any order",
]
