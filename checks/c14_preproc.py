"""C14 - preprocessing composes, metadata stays truthful, rollback restores the start.

World  : one real SingleSetup or MultiSetup_PreGER over user-owned arrays.
History: seeded sequence of decimate / detrend / filter / rollback / add_algorithms calls,
         with scipy faults injected on the k-th per-dataset call of an operation.
Oracle : an executable model made of plain scipy calls on private copies (DESIGN section 4).
"""
import copy
import random
import types

import numpy as np
import scipy.signal as sps

from sim import datagen
from sim import env as _env
from sim.canon import EventLog, h_array
from sim.seams import CallSeam, FaultPlan

PROPERTY = "C14"
RTOL = 1e-9
META_RTOL = 1e-12

_S = {}  # per-process seam state


# ---------------------------------------------------------------------------------------------
# seams
# ---------------------------------------------------------------------------------------------
class _SignalSeam(types.ModuleType):
    """scipy.signal as seen by a pyoma2 module that imported it as a module: decimate / detrend / sosfiltfilt
    go through the fault plan, everything else is the real thing."""

    _SITES = {"decimate": "decimate", "detrend": "detrend", "sosfiltfilt": "sosfiltfilt"}

    def __init__(self, real, plan):
        super().__init__("scipy.signal")
        object.__setattr__(self, "_real", real)
        object.__setattr__(self, "_plan", plan)

    def __getattr__(self, name):
        val = getattr(object.__getattribute__(self, "_real"), name)
        site = self._SITES.get(name)
        if site is None:
            return val
        return CallSeam(object.__getattribute__(self, "_plan"), site, val)


def init_worker():
    if _S:
        return
    import scipy.signal

    import pyoma2.functions.gen as fgen
    import pyoma2.setup.base as base  # noqa
    import pyoma2.setup.multi as multi
    import pyoma2.setup.single as single

    plan = FaultPlan()
    _S["plan"] = plan
    _S["base"] = base
    n = 0
    # names imported directly (the current code) ...
    for mod in (base, single, multi):
        for name in ("decimate", "detrend", "filter_data"):
            real = getattr(mod, name, None)
            if callable(real) and not isinstance(real, CallSeam):
                setattr(mod, name, CallSeam(plan, name, real))
                n += 1
    # ... and scipy.signal imported as a module (what a refactoring may do)
    for mod in (base, single, multi, fgen):
        for attr in ("signal", "sps", "scipy_signal"):
            if getattr(mod, attr, None) is scipy.signal:
                setattr(mod, attr, _SignalSeam(scipy.signal, plan))
                n += 1
    _S["seams_installed"] = n


def _alg_classes(kind):
    import pyoma2.algorithms as A

    if kind == "single":
        return {"FDD": A.FDD, "SSIcov": A.SSIcov, "pLSCF": A.pLSCF}
    return {"FDD_MS": A.FDD_MS, "SSIcov_MS": A.SSIcov_MS, "pLSCF_MS": A.pLSCF_MS}


def _make_alg(kind, cls_name, name):
    cls = _alg_classes(kind)[cls_name]
    if cls_name.startswith("FDD"):
        return cls(name=name, nxseg=64)
    if cls_name.startswith("SSI"):
        return cls(name=name, br=4, ordmax=6)
    return cls(name=name, ordmax=4, nxseg=64)


# ---------------------------------------------------------------------------------------------
# world
# ---------------------------------------------------------------------------------------------
FS_CHOICES = [10.0, 12.8, 20.0, 25.0, 31.25, 33.3, 50.0, 62.5, 64.0, 100.0, 120.0, 125.0, 128.0, 200.0, 250.0, 256.0,
              400.0, 500.0, 512.0, 1000.0, 1024.0, 2000.0, 2048.0, 4000.0, 44100.0]


def gen_world(rng: random.Random, tier: str) -> dict:
    kind = "single" if rng.random() < 0.45 else "preger"
    fs = rng.choice(FS_CHOICES) if rng.random() < 0.8 else round(rng.uniform(8.0, 3000.0), rng.choice([0, 1, 2]))
    lo, hi = (150, 900)
    if rng.random() < 0.2:
        lo, hi = (1500, 4000)  # long records: several decimations in a row stay possible
    if kind == "single":
        nds = 1
    else:
        nds = rng.choice([1, 2, 2, 3, 3])
    same_len = rng.random() < 0.5
    n0 = rng.randint(lo, hi)
    ndat = [n0 if same_len else rng.randint(lo, hi) for _ in range(nds)]
    if rng.random() < 0.15:
        # a short record somewhere: repeated decimation soon makes scipy's padding fail naturally
        ndat[rng.randrange(nds)] = rng.randint(40, 120)
    nch = [rng.randint(2, 5) for _ in range(nds)]
    w = {
        "kind": kind,
        "fs": fs,
        "ndat": ndat,
        "nch": nch,
        "data_seed": rng.getrandbits(40),
        "trend": rng.random() < 0.8,
        "int_fs": rng.random() < 0.25,
        # how the user's arrays lie in memory: C order, Fortran order, or a strided view of a larger buffer
        "layout": rng.choices(["C", "F", "view"], weights=[0.7, 0.18, 0.12])[0],
        "dtype": rng.choices(["float64", "float32", "int64", "readonly"], weights=[0.8, 0.08, 0.06, 0.06])[0],
        # "nd0": a zero-dimensional array, which is what np.load(...)["fs"] or np.asarray(100.0) hands out
        "fs_as": rng.choices(["float", "npfloat", "nd0"], weights=[0.86, 0.08, 0.06])[0],
        "datasets_as": rng.choices(["list", "tuple"], weights=[0.9, 0.1])[0],
    }
    if kind == "preger":
        nref = rng.randint(1, min(nch) - 1) if min(nch) > 1 else 1
        w["ref_ind"] = [rng.sample(range(c), nref) for c in nch]  # any order, any position
        if rng.random() < 0.2:
            # a different number of reference channels per dataset (the split itself does not require equal counts)
            w["ref_ind"] = [rng.sample(range(c), rng.randint(1, c - 1)) for c in nch]
        w["ref_as"] = rng.choices(["list", "tuple", "npint", "nparray"], weights=[0.7, 0.12, 0.09, 0.09])[0]
        if nds >= 2 and rng.random() < 0.10:
            # one reference-index list OBJECT shared by all datasets, whatever their channel counts
            k = rng.randint(1, min(nch) - 1) if min(nch) > 1 else 1
            shared = rng.sample(range(min(nch)), k)
            w["ref_ind"] = [list(shared) for _ in nch]
            w["share_ref_obj"] = True
        if nds >= 2 and rng.random() < 0.06:
            # degenerate but legal: the very same array object (and reference list object) given for two datasets
            w["ndat"][1], w["nch"][1], w["ref_ind"][1] = w["ndat"][0], w["nch"][0], list(w["ref_ind"][0])
            w["alias01"] = True
    w["log_debug"] = rng.random() < 0.1  # the package logger at DEBUG level: must not change anything
    if rng.random() < 0.0008:
        # once in a while a really long record (more than 2**22 samples x channels): code paths that only exist for
        # large inputs (chunking, block-wise processing, memory-saving shortcuts) are otherwise never entered
        w["huge"] = True
        w["ndat"], w["nch"] = [rng.randint(1_050_000, 1_150_000)], [4]
        w["dtype"] = rng.choice(["float64", "float32", "int64", "int64"])
        w["layout"] = "C"
        for k_ in ("alias01", "share_ref_obj"):
            w.pop(k_, None)
        if kind == "preger":
            w["ref_ind"] = [[rng.randrange(4)]]
    return w


def build_arrays(world):
    """Returns (arrays handed to the library, owners whose bytes must never change)."""
    arrays, owners = [], []
    for i in range(len(world["ndat"])):
        a = datagen.resonator_record(world["data_seed"] + 7919 * i, world["ndat"][i], world["nch"][i], world["fs"],
                                     nmodes=2, trend=world["trend"])
        dt = world.get("dtype", "float64")
        if dt == "float32":
            a = a.astype(np.float32)
        elif dt == "int64":
            a = np.round(a * 100).astype(np.int64)
        lay = world.get("layout", "C")
        if dt == "readonly":
            a.setflags(write=False)
            owners.append(a)
        elif lay == "F":
            a = np.asfortranarray(a)
            owners.append(a)
        elif lay == "view":
            big = np.full((a.shape[0] * 2 + 3, a.shape[1] + 2), 7.25)
            big[1:1 + 2 * a.shape[0]:2, 1:1 + a.shape[1]] = a
            owners.append(big)
            a = big[1:1 + 2 * a.shape[0]:2, 1:1 + a.shape[1]]
        else:
            owners.append(a)
        arrays.append(a)
    if world.get("alias01") and len(arrays) >= 2:
        arrays[1], owners[1] = arrays[0], owners[0]
    return arrays, owners


def build_setup(world, arrays):
    from pyoma2.setup import MultiSetup_PreGER, SingleSetup

    fs = int(world["fs"]) if world.get("int_fs") and float(world["fs"]).is_integer() else world["fs"]
    if world.get("fs_as") == "npfloat" and not isinstance(fs, int):
        fs = np.float64(fs)
    elif world.get("fs_as") == "nd0":
        fs = np.asarray(fs, dtype=float)  # a mutable object: in-place arithmetic on it reaches every holder
    world["_user_fs"] = fs
    if world["kind"] == "single":
        return SingleSetup(arrays[0], fs=fs)
    # the user's own list objects are handed over, like the arrays
    ds = world["_user_list"]
    if world.get("datasets_as") == "tuple":
        ds = tuple(ds)
    return MultiSetup_PreGER(fs=fs, ref_ind=world["_user_ref"], datasets=ds)


# ---------------------------------------------------------------------------------------------
# model
# ---------------------------------------------------------------------------------------------
class Model:
    def __init__(self, world, arrays):
        self.kind = world["kind"]
        self.fs0 = float(world["fs"])
        # private copies in the same memory order (C stays C, Fortran stays Fortran): rounding may depend on it
        self.init = [np.array(a, order="K", copy=True) for a in arrays]
        self.ref = copy.deepcopy(world.get("ref_ind"))
        self.reset()

    def reset(self):
        self.ds = [np.array(a, order="K", copy=True) for a in self.init]
        self.fs = self.fs0
        self.ndec = 0
        self.flags = {"filt": False, "detr": False, "rb": False}
        # what the duration attribute holds under known finding KF-C14-T (see known_findings.json)
        self.T_stale = [a.shape[0] / self.fs0 for a in self.init]

    def apply(self, op):
        """Returns (new_datasets, new_fs) or raises what scipy raises."""
        k = op["op"]
        if k == "decimate":
            kw = dict(op.get("kw", {}))
            kw.setdefault("axis", 0)
            new = [sps.decimate(d, op["q"], **kw) for d in self.ds]
            return new, self.fs / op["q"]
        if k == "detrend":
            kw = dict(op.get("kw", {}))
            kw.setdefault("axis", 0)
            kw.pop("overwrite_data", None)  # same numbers either way; the model never works in place
            if "bp" in kw:
                kw["bp"] = list(kw["bp"]) if isinstance(kw["bp"], (list, tuple)) else kw["bp"]
                if op.get("bp_as") == "int":
                    kw["bp"] = int(kw["bp"][0])
            new = [sps.detrend(d, **kw) for d in self.ds]
            return new, self.fs
        if k == "filter":
            order = op.get("order", 8)
            btype = op.get("btype", "lowpass")
            sos = sps.butter(order, op["Wn"], btype=btype, output="sos", fs=self.fs)
            new = [sps.sosfiltfilt(sos, d, axis=0) for d in self.ds]
            return new, self.fs
        raise AssertionError(k)

    def commit(self, op, new, fs):
        if op["op"] == "decimate":
            self.ndec += 1
            self.T_stale = [d.shape[0] / fs / op["q"] for d in new]
        elif op["op"] == "filter":
            self.flags["filt"] = True
        elif op["op"] == "detrend":
            self.flags["detr"] = True
        self.ds, self.fs = new, fs

    def handed(self, ds=None):
        """The structure an algorithm added now must receive."""
        ds = self.ds if ds is None else ds
        if self.kind == "single":
            return ds[0]
        out = []
        for d, r in zip(ds, self.ref):
            mov = [c for c in range(d.shape[1]) if c not in r]
            out.append({"ref": d[:, r].T, "mov": d[:, mov].T})
        return out

    def abstract(self):
        return f"d{min(self.ndec, 3)}f{int(self.flags['filt'])}t{int(self.flags['detr'])}r{int(self.flags['rb'])}"


# ---------------------------------------------------------------------------------------------
# comparison helpers
# ---------------------------------------------------------------------------------------------
_TOL = {"float32_world": False}  # single-precision input: every later step carries single-precision rounding


def _close(a, b):
    a, b = np.asarray(a), np.asarray(b)
    if a.shape != b.shape:
        return False, f"shape {a.shape} != {b.shape}"
    if a.size == 0:
        return True, ""
    if not (np.isfinite(a) == np.isfinite(b)).all():
        return False, "finite pattern differs"
    scale = max(1.0, float(np.nanmax(np.abs(b))) if np.isfinite(b).any() else 1.0)
    m = np.isfinite(b)
    err = float(np.max(np.abs(a[m] - b[m]))) if m.any() else 0.0
    rtol = 1e-4 if (a.dtype == np.float32 or b.dtype == np.float32 or _TOL["float32_world"]) else RTOL
    if err > rtol * scale:
        return False, f"max abs err {err:.3e} (scale {scale:.3e})"
    return True, ""


def _feq(a, b, rtol=META_RTOL):
    try:
        a, b = float(a), float(b)
    except Exception:
        return False
    return abs(a - b) <= rtol * max(abs(a), abs(b), 1e-300)


def cmp_handed(kind, got, want, what):
    """Compare the data structure handed to algorithms. Returns list of (oracle, detail)."""
    out = []
    if kind == "single":
        ok, d = _close(got, want)
        if not ok:
            out.append(("data.eq", f"{what}: {d}"))
        return out
    if not isinstance(got, (list, tuple)) or len(got) != len(want):
        return [("data.split", f"{what}: expected list of {len(want)} dicts, got {type(got).__name__}")]
    for i, (g, w) in enumerate(zip(got, want)):
        for part in ("ref", "mov"):
            if not isinstance(g, dict) or part not in g:
                out.append(("data.split", f"{what}[{i}] has no '{part}'"))
                continue
            ok, d = _close(g[part], w[part])
            if not ok:
                # tell "wrong values" from "wrong channels/order" for the fingerprint
                same_shape = np.asarray(g[part]).shape == w[part].shape
                perm = False
                if same_shape and w[part].shape[0] > 1:
                    gs = np.sort(np.asarray(g[part]), axis=0)
                    ws = np.sort(w[part], axis=0)
                    perm = _close(gs, ws)[0]
                out.append(("data.split" if perm else "data.eq", f"{what}[{i}].{part}: {d}"))
    return out


def observe(setup, kind):
    o = {"fs": getattr(setup, "fs", None), "dt": getattr(setup, "dt", None)}
    if kind == "single":
        o["Ndat"] = [getattr(setup, "Ndat", None)]
        o["T"] = [getattr(setup, "T", None)]
    else:
        o["Ndat"] = list(getattr(setup, "Ndats", []))
        o["T"] = list(getattr(setup, "Ts", []))
    o["data"] = setup.data
    # channel counts and (multi-setup) the working list of full datasets: public attributes that describe the same data
    if kind == "single":
        o["Nch"] = [setup.Nch] if hasattr(setup, "Nch") else None
        o["datasets"] = None
    else:
        o["Nch"] = list(setup.Nchs) if hasattr(setup, "Nchs") else None
        o["datasets"] = list(setup.datasets) if hasattr(setup, "datasets") else None
    return o


def cmp_state(m: Model, obs, ds, fs, T_stale, what):
    """Judge an observation against model datasets `ds` at rate `fs`.
    Returns (violations, known) lists of (oracle, detail)."""
    v, known = [], []
    v += cmp_handed(m.kind, obs["data"], m.handed(ds), what)
    if not _feq(obs["fs"], fs):
        v.append(("meta.fs", f"{what}: fs={obs['fs']!r} expected {fs!r}"))
    if not _feq(obs["dt"], 1.0 / fs):
        v.append(("meta.dt", f"{what}: dt={obs['dt']!r} expected {1.0 / fs!r} (fs={fs!r})"))
    if len(obs["Ndat"]) != len(ds):
        v.append(("meta.Ndat", f"{what}: {len(obs['Ndat'])} sample counts for {len(ds)} datasets"))
    else:
        for i, d in enumerate(ds):
            if obs["Ndat"][i] != d.shape[0]:
                v.append(("meta.Ndat", f"{what}: Ndat[{i}]={obs['Ndat'][i]!r} expected {d.shape[0]}"))
    if obs.get("Nch") is not None:
        if len(obs["Nch"]) != len(ds) or any(int(c) != d.shape[1] for c, d in zip(obs["Nch"], ds)):
            v.append(("meta.Nch", f"{what}: channel counts {obs['Nch']!r} expected {[d.shape[1] for d in ds]!r}"))
    if obs.get("datasets") is not None:
        if len(obs["datasets"]) != len(ds):
            v.append(("data.datasets", f"{what}: {len(obs['datasets'])} working datasets, expected {len(ds)}"))
        else:
            for i, (g, d) in enumerate(zip(obs["datasets"], ds)):
                ok, why = _close(g, d)
                if not ok:
                    v.append(("data.datasets", f"{what}: datasets[{i}]: {why}"))
    if len(obs["T"]) != len(ds):
        v.append(("meta.T", f"{what}: {len(obs['T'])} durations for {len(ds)} datasets"))
    else:
        for i, d in enumerate(ds):
            want = d.shape[0] / fs
            if _feq(obs["T"][i], want, 1e-10):
                continue
            if T_stale is not None and _feq(obs["T"][i], T_stale[i], 1e-10):
                known.append(
                    ("meta.T", f"{what}: T[{i}]={obs['T'][i]!r} but samples*dt={want!r} "
                               f"(= value/q of the last decimation)")
                )
            else:
                v.append(("meta.T", f"{what}: T[{i}]={obs['T'][i]!r} expected {want!r}"))
    return v, known


# ---------------------------------------------------------------------------------------------
# operation generator
# ---------------------------------------------------------------------------------------------
OPKINDS = ["decimate", "detrend", "filter", "rollback", "add"]


def gen_swarm(rng, tier="quick"):
    w = {k: rng.choice([0.5, 1.0, 1.0, 2.0, 3.0]) for k in OPKINDS}
    if rng.random() < 0.3:
        w[rng.choice(OPKINDS)] = 0.0
    if rng.random() < 0.15:
        w["decimate"] = 6.0  # decimation-heavy histories: cumulative factors 8..125
    r = rng.random()
    nops = 1 if r < 0.05 else 2 if r < 0.25 else 3 if r < 0.55 else 4 if r < 0.8 else 5 if r < 0.93 else 6
    if tier == "thorough" and rng.random() < 0.25:
        nops = rng.randint(6, 10)
    faulty = rng.random() < 0.55
    sw = {"w": w, "nops": nops, "faulty": faulty, "pfault": rng.choice([0.2, 0.35, 0.5])}
    if rng.random() < 0.15:
        # "echo" histories: some operations, (mostly) a rollback, then some of the very same operations with
        # the very same arguments again -- whatever an operation remembers from its first application (a design,
        # a length, a buffer) must not leak into the second one
        k = rng.choice([1, 2, 2, 3])
        first = [rng.choice(["decimate", "detrend", "filter"]) for _ in range(k)]
        again = sorted(rng.sample(range(k), rng.randint(1, k)))
        plan = ["fresh:" + x for x in first]
        if rng.random() < 0.75:
            plan.append("rollback")
        elif rng.random() < 0.5:
            plan.append("add")
        if rng.random() < 0.35:
            # something else of the same kind in between (another band, another factor): a memo that is "refreshed" by
            # an unrelated call must not make its older entries look valid again
            plan.append("fresh:" + rng.choice(first))
        plan += [f"repeat:{j}" for j in again] + ["add"]
        sw["echo"] = plan
        sw["nops"] = len(plan)
    sw["foreign"] = rng.random() < 0.2
    if sw["foreign"]:
        sw["nops"] += 2
    sw["peek"] = rng.random() < 0.025
    if sw["peek"]:
        sw["nops"] += 1
    return sw


def _overwrite_allowed(ops, sig):
    ok = False
    for op, sg in zip(ops, sig):
        k, out = (sg.split(":") + [""])[:2]
        if k == "add":
            ok = False
        elif k in ("rollback", "decimate", "detrend", "filter") and out == "ok":
            ok = True
    return ok and len(ops) == len(sig)


def gen_op(rng, m: Model, swarm, nalg, prev=(), step=0):
    ks = [k for k in OPKINDS if swarm["w"][k] > 0]
    k = rng.choices(ks, weights=[swarm["w"][x] for x in ks])[0]
    echo = swarm.get("echo")
    forced = swarm.pop("_force_filter", None)
    if forced is not None:
        return forced
    if swarm.get("peek") and not (echo and step < len(echo)) and rng.random() < 0.3:
        # a read-only public call in between (the plotting helpers of the setup): it must leave everything as it is
        return {"op": "peek", "what": rng.choice(["plot_ch_info", "plot_ch_info", "plot_data", "plot_STFT"])}
    if swarm.get("foreign") and not (echo and step < len(echo)) and step > 0 and rng.random() < 0.3:
        # another setup object alive in the same process is worked on in between (not judged itself): whatever one
        # setup keeps at class or module level must not reach the other
        do = rng.choice(["decimate", "filter", "detrend", "rollback", "new"])
        op = {"op": "foreign", "kind": rng.choice(["single", "preger"]), "do": do}
        if do == "decimate":
            op["q"] = rng.randint(2, 5)
        elif do == "filter":
            op["rel"] = round(rng.uniform(0.1, 0.8), 4)
            op["order"] = rng.randint(1, 8)
            op["same_args_as_last"] = rng.random() < 0.3
            if not op["same_args_as_last"] and not swarm.get("no_filter") and rng.random() < 0.7:
                # absolute cut-off valid for both setups; the setup under test filters with the very same arguments next
                op["Wn"] = round(op["rel"] * 0.5 * min(m.fs, m.fs0 * 0.5 + 3.0) / 2.0, 6)
                swarm["_force_filter"] = {"op": "filter", "Wn": op["Wn"], "order": op["order"]}
        return op
    if echo and step < len(echo):
        tok = echo[step]
        if tok.startswith("repeat:"):
            op = copy.deepcopy(prev[int(tok[7:])])
            op.pop("fault", None)
            if (not swarm.get("_ow_ok") or "bp" in op.get("kw", {})) and "overwrite_data" in op.get("kw", {}):
                op["kw"].pop("overwrite_data")
                if not op["kw"]:
                    op.pop("kw")
            return op
        k = tok[6:] if tok.startswith("fresh:") else tok
    nmin = min(d.shape[0] for d in m.ds)
    if k == "decimate":
        op = {"op": k, "q": rng.randint(2, 5)}
        kw = {}
        if rng.random() < 0.4:
            kw["ftype"] = rng.choice(["iir", "fir"])
        if rng.random() < 0.3:
            kw["n"] = rng.randint(2, 6) if kw.get("ftype", "iir") == "iir" else rng.randint(8, 30)
        if rng.random() < 0.3:
            kw["zero_phase"] = rng.random() < 0.5
        if rng.random() < 0.12:
            kw["axis"] = 0
        if kw:
            op["kw"] = kw
    elif k == "detrend":
        op = {"op": k}
        kw = {}
        if rng.random() < 0.6:
            kw["type"] = rng.choice(["linear", "constant"])
        if rng.random() < 0.08:
            kw["axis"] = 0
        may_fail = False
        if rng.random() < 0.25 and nmin > 8:
            if rng.random() < 0.08:
                kw["bp"] = [nmin + rng.randint(1, 50)]  # out of range: scipy raises
                may_fail = True
            else:
                kw["bp"] = sorted(rng.sample(range(2, nmin - 2), rng.randint(1, 2)))
        if swarm.get("_ow_ok") and not may_fail and rng.random() < 0.3:
            # a documented scipy keyword. Only generated where in-place work can legitimately touch nothing but the
            # working data: the working arrays are the library's own (an operation or a rollback succeeded since
            # construction), no algorithm has been handed them since, and the call is not made to fail (a call that
            # fails half-way through work the user asked to be done in place has no "before" to go back to)
            kw["overwrite_data"] = True
        if kw:
            op["kw"] = kw
    elif k == "filter":
        nyq = m.fs / 2.0
        btype = rng.choice(["lowpass", "highpass", "bandpass", "bandstop"])
        bad = rng.random() < 0.05
        if btype in ("lowpass", "highpass"):
            Wn = round(nyq * (rng.uniform(1.0, 1.3) if bad else rng.uniform(0.08, 0.9)), 6)
        else:
            a = rng.uniform(0.06, 0.55)
            b = a + rng.uniform(0.1, 0.35)
            Wn = [round(nyq * a, 6), round(nyq * (b + (0.6 if bad else 0.0)), 6)]
        op = {"op": k, "Wn": Wn}
        if rng.random() < 0.3:
            op["wn_as"] = rng.choice(["list", "ndarray"])  # Wn is documented as array_like
        r = rng.random()
        if r < 0.15 and btype == "lowpass":
            pass  # all defaults: order 8, lowpass
        elif r < 0.3 and btype == "lowpass":
            op["order"] = rng.randint(1, 8)
        else:
            op["order"] = rng.randint(1, 8)
            op["btype"] = btype
    elif k == "rollback":
        op = {"op": k}
    else:
        names = sorted(_alg_classes(m.kind))
        op = {"op": "add", "alg": rng.choice(names), "name": f"a{nalg}"}
        if nalg and rng.random() < 0.35:
            # the same instance added again: the only public way to hand it the setup's current data
            op = {"op": "add", "readd": rng.randrange(nalg)}
    # unusual but legal FORMS of the same arguments (numpy scalars, alternative spellings, arrays)
    if k == "decimate" and rng.random() < 0.12:
        op["q_as"] = "npint"
    if k == "filter":
        if "order" in op and rng.random() < 0.1:
            op["order_as"] = "npint"
        if "btype" in op and rng.random() < 0.15:
            op["btype"] = rng.choice({"lowpass": ["low", "lp", "LOWPASS"], "highpass": ["high", "hp", "HighPass"],
                                      "bandpass": ["band", "bp", "pass"], "bandstop": ["bs", "stop", "bands"]}[op["btype"]])
        if not isinstance(op["Wn"], list) and "wn_as" not in op and rng.random() < 0.12:
            op["wn_as"] = "npfloat"
    if k == "detrend" and isinstance(op.get("kw", {}).get("bp"), list) and rng.random() < 0.4:
        op["bp_as"] = rng.choice(["nparray", "int"])
        if op["bp_as"] == "int":
            op["kw"]["bp"] = op["kw"]["bp"][:1]
    if (swarm["faulty"] and k in ("decimate", "detrend", "filter") and rng.random() < swarm["pfault"]
            and not op.get("kw", {}).get("overwrite_data")):
        op["fault"] = {
            "kind": "sci_exc",
            "call": rng.randrange(len(m.ds)),
            "exc": rng.choice(["ValueError", "MemoryError"]),
        }
    return op


# ---------------------------------------------------------------------------------------------
# one run
# ---------------------------------------------------------------------------------------------
def _call_real(setup, op):
    k = op["op"]
    if k == "decimate":
        q = np.int64(op["q"]) if op.get("q_as") == "npint" else op["q"]
        return setup.decimate_data(q=q, **copy.deepcopy(op.get("kw", {})))
    if k == "detrend":
        kw = copy.deepcopy(op.get("kw", {}))
        if op.get("bp_as") == "nparray":
            kw["bp"] = np.array(kw["bp"])
        elif op.get("bp_as") == "int":
            kw["bp"] = int(kw["bp"][0])
        return setup.detrend_data(**kw)
    if k == "filter":
        kw = {n: op[n] for n in ("order", "btype") if n in op}
        if op.get("order_as") == "npint":
            kw["order"] = np.int64(kw["order"])
        Wn = op["Wn"]
        how = op.get("wn_as", "tuple")
        if how == "npfloat":
            arg = np.float64(Wn)
        elif how == "ndarray":
            arg = np.array(Wn, dtype=float)
        elif how == "list":
            arg = list(Wn) if isinstance(Wn, list) else Wn
        else:
            arg = tuple(Wn) if isinstance(Wn, list) else Wn
        keep = np.array(arg, dtype=float, copy=True)
        try:
            return setup.filter_data(Wn=arg, **kw)
        finally:
            if not np.array_equal(np.asarray(arg, dtype=float), keep):
                _S["wn_mutated"] = True
    if k == "rollback":
        return setup.rollback()
    raise AssertionError(k)


def _peek(setup, op, m):
    """One of the setup's plotting helpers with its default selection of channels / datasets. Whether the plot itself
    succeeds is not this property's business; what it leaves behind is."""
    import matplotlib

    matplotlib.use("Agg", force=True)
    import matplotlib.pyplot as plt

    nmin = min(d.shape[0] for d in m.ds)
    nx = int(max(8, min(128, nmin // 3)))
    try:
        if op["what"] == "plot_data":
            setup.plot_data()
        else:
            getattr(setup, op["what"])(nxseg=nx)
    except Exception:
        pass
    finally:
        plt.close("all")


def _foreign_op(store, world, op, ops_so_far):
    """Work on another setup object (own data, another sampling frequency). Never judged; errors are its own."""
    from pyoma2.setup import MultiSetup_PreGER, SingleSetup

    kind = op["kind"]
    fs2 = float(world["fs"]) * 0.5 + 3.0
    if kind not in store or op["do"] == "new":
        n = 400
        if kind == "single":
            store[kind] = SingleSetup(datagen.resonator_record(world["data_seed"] + 17, n, 3, fs2, nmodes=2, trend=True), fs=fs2)
        else:
            ds = [datagen.resonator_record(world["data_seed"] + 23 + i, n + 37 * i, 3, fs2, nmodes=2, trend=True) for i in range(2)]
            store[kind] = MultiSetup_PreGER(fs=fs2, ref_ind=[[0], [2]], datasets=ds)
        if op["do"] == "new":
            return
    f = store[kind]
    try:
        if op["do"] == "decimate":
            f.decimate_data(q=op["q"])
        elif op["do"] == "detrend":
            f.detrend_data()
        elif op["do"] == "rollback":
            f.rollback()
        elif op["do"] == "filter":
            last = [o for o in ops_so_far if o.get("op") == "filter"]
            if op.get("same_args_as_last") and last:
                # the very arguments the setup under test used last (another fs: another design)
                o = last[-1]
                f.filter_data(Wn=o["Wn"], **{k_: o[k_] for k_ in ("order", "btype") if k_ in o})
            elif "Wn" in op:
                f.filter_data(Wn=op["Wn"], order=op["order"])
            else:
                f.filter_data(Wn=op["rel"] * float(f.fs) / 2.0, order=op["order"])
    except Exception:
        pass


def _site(op):
    return {"decimate": "decimate", "detrend": "detrend", "filter": "filter_data"}[op["op"]]


def run_case(seed, tier="quick", case=None, known=()):
    """Generate (case is None) or replay (case given) one history. Returns a result dict."""
    init_worker()
    plan = _S["plan"]
    plan.reset()  # nothing armed may survive from the previous history of this worker
    known = set(known)
    rng = random.Random(seed)
    if case is None:
        world = gen_world(rng, tier)
        swarm = gen_swarm(rng, tier)
        if world.get("huge"):
            swarm["nops"] = min(swarm["nops"], 3)
            swarm.pop("echo", None)
            swarm["foreign"] = False
            swarm["peek"] = False
            swarm["faulty"] = False
            swarm["w"]["filter"] = max(swarm["w"]["filter"], 3.0)
        if world.get("fs_as") == "nd0":
            # scipy's own filter design refuses a zero-dimensional array as fs ("must be a single scalar"), so whether
            # filter_data accepts it is up to the implementation: such worlds decimate, detrend, roll back and add only
            swarm["w"]["filter"] = 0
            swarm["no_filter"] = True
            if swarm.get("echo"):
                swarm["echo"] = [t.replace("fresh:filter", "fresh:detrend") for t in swarm["echo"]]
            if all(swarm["w"][k_] == 0 for k_ in ("decimate", "detrend", "rollback", "add")):
                swarm["w"]["decimate"] = 1.0
        ops_in = None
        nops = swarm["nops"]
    else:
        world = copy.deepcopy(case["world"])
        swarm = None
        ops_in = case["ops"]
        nops = len(ops_in)
    _TOL["float32_world"] = world.get("dtype") == "float32"
    _env.set_log_debug(bool(world.get("log_debug")))
    arrays, owners = build_arrays(world)
    user_hash = [h_array(a) for a in owners]
    user_list = list(arrays)
    user_ref = copy.deepcopy(world.get("ref_ind"))
    if user_ref is not None and world.get("ref_as") == "tuple":
        user_ref = [tuple(r) for r in user_ref]
    elif user_ref is not None and world.get("ref_as") == "npint":
        user_ref = [[np.int64(c) for c in r] for r in user_ref]
    elif user_ref is not None and world.get("ref_as") == "nparray":
        user_ref = [np.array(r, dtype=int) for r in user_ref]
    if user_ref is not None and world.get("alias01") and len(user_ref) >= 2:
        user_ref[1] = user_ref[0]
    if user_ref is not None and world.get("share_ref_obj") and all(list(map(int, r)) == list(map(int, user_ref[0])) for r in user_ref):
        user_ref = [user_ref[0]] * len(user_ref)
    world["_user_list"], world["_user_ref"] = user_list, user_ref
    m = Model(world, arrays)
    log = EventLog(seed)
    log.add({"world": {k: v for k, v in world.items() if not k.startswith("_")}})
    res = {
        "property": PROPERTY, "seed": seed, "world": {k: v for k, v in world.items() if not k.startswith("_")},
        "ops": [], "violations": [], "known": [], "counters": {}, "states": [], "sig": [],
    }
    C = res["counters"]

    def inc(k, by=1):
        C[k] = C.get(k, 0) + by

    def violate(oracle, op, step, detail, is_known=False):
        fp = f"{oracle}@{op['op'] if op else 'init'}/{world['kind']}"
        rec = {"oracle": oracle, "fingerprint": fp, "step": step, "detail": detail}
        if is_known:
            # one root cause whatever operation it is observed after: the last decimation
            fpk = f"meta.T@decimate/{world['kind']}:T=samples*dt/q"
            rec["fingerprint"] = fpk
            if fpk in known:
                res["known"].append(rec)
                return False
        res["violations"].append(rec)
        return True

    try:
        setup = build_setup(world, arrays)
    except Exception as e:  # constructor must accept every generated world
        violate("init.raises", None, -1, f"{type(e).__name__}: {e}")
        return _finish(res, log, m)
    world.pop("_user_list"), world.pop("_user_ref")

    stop = False
    v, kn = cmp_state(m, observe(setup, m.kind), m.ds, m.fs, None, "initial")
    for o, d in v:
        stop |= violate(o, None, -1, d)
    _foreign = {}  # kind -> another setup object alive next to the one under test
    bound = []  # (name, alg, hash-of-bound-data) for probes
    nalg = 0
    changed = 0
    extended = False
    step = -1
    while step + 1 < nops:
        step += 1
        if stop:
            break
        if ops_in is None:
            swarm["_ow_ok"] = _overwrite_allowed(res["ops"], res["sig"])
        op = copy.deepcopy(ops_in[step]) if ops_in is not None else gen_op(rng, m, swarm, nalg, res["ops"], step)
        if ops_in is None and step == nops - 1 and "fault" in op and not extended:
            nops += 1  # bounded liveness: one more operation after the last fault must match the model again
            extended = True
        res["ops"].append(op)
        k = op["op"]
        fault = op.get("fault")
        outcome = "ok"
        plan.reset()
        if k == "peek":
            _peek(setup, op, m)
            inc("probe.read_only_call_in_between")
            v, kn = cmp_state(m, observe(setup, m.kind), m.ds, m.fs, m.T_stale, f"after the read-only call {op['what']}()")
            for o, d in v:
                stop |= violate("iso.read_only_call", op, step, f"{o}: {d}")
            for o, d in kn:
                violate(o, op, step, d, is_known=True)
        elif k == "foreign":
            _foreign_op(_foreign, world, op, res["ops"])
            inc("probe.operation_on_another_setup_in_between")
            v, kn = cmp_state(m, observe(setup, m.kind), m.ds, m.fs, m.T_stale, "after an operation on ANOTHER setup object")
            for o, d in v:
                stop |= violate("iso.other_setup", op, step, f"{o}: {d}")
            for o, d in kn:
                violate(o, op, step, d, is_known=True)
        elif k == "add":
            readd = None
            if "readd" in op:
                live = [b for b in bound if getattr(setup, "algorithms", {}).get(b[0]) is b[1]]
                readd = live[op["readd"] % len(live)] if live else None
                if readd is None:
                    # nothing registered any more (e.g. after a rollback): plain add of a new instance
                    op_alg, op_name = sorted(_alg_classes(m.kind))[0], f"a{nalg}"
                else:
                    inc("probe.same_instance_added_again")
            else:
                op_alg, op_name = op["alg"], op["name"]
            if readd is None:
                nalg += 1
            try:
                alg = readd[1] if readd is not None else _make_alg(m.kind, op_alg, op_name)
                setup.add_algorithms(alg)
            except Exception as e:
                stop |= violate("kw.rejected", op, step, f"add_algorithms raised {type(e).__name__}: {e}")
                break
            got = getattr(alg, "data", None)
            for o, d in cmp_handed(m.kind, got, m.handed(), "algorithm.data"):
                stop |= violate("bind.data" if o == "data.eq" else "bind.split", op, step, d)
            if not _feq(getattr(alg, "fs", None), m.fs):
                stop |= violate("bind.fs", op, step, f"algorithm.fs={getattr(alg, 'fs', None)!r} expected {m.fs!r}")
            if not _feq(getattr(alg, "dt", None), 1.0 / m.fs):
                stop |= violate("bind.dt", op, step, f"algorithm.dt={getattr(alg, 'dt', None)!r} expected {1.0 / m.fs!r}")
            nm = readd[0] if readd is not None else op_name
            if setup.algorithms.get(nm) is not alg:
                stop |= violate("bind.data", op, step, "algorithm not registered under its name")
            if readd is not None:
                bound[:] = [b for b in bound if b[1] is not alg]
            bound.append((nm, alg, _hash_handed(got)))
            if m.ndec or m.flags["filt"] or m.flags["detr"]:
                inc("probe.add_after_preproc")
            if m.flags["rb"]:
                inc("probe.add_after_rollback")
        elif k == "rollback":
            try:
                setup.rollback()
            except Exception as e:
                stop |= violate("rollback.raises", op, step, f"{type(e).__name__}: {e}")
                break
            if changed >= 2:
                inc("probe.rollback_after_2plus_ops")
            had = m.ndec or m.flags["filt"] or m.flags["detr"]
            m.reset()
            m.flags["rb"] = True
            changed = 0
            v, kn = cmp_state(m, observe(setup, m.kind), m.ds, m.fs, None, "after rollback")
            for o, d in v:
                stop |= violate("rollback.eq" if had else o, op, step, f"{o}: {d}")
        else:
            # model first: what must happen
            try:
                new, nfs = m.apply(op)
                m_exc = None
            except Exception as e:
                new, nfs, m_exc = None, None, e
            if fault and m_exc is None:
                plan.arm(_site(op), fault["call"], fault["exc"], fault["kind"])
                if k == "filter":
                    # an implementation may apply the filter itself instead of going through gen.filter_data
                    plan.arm("sosfiltfilt", fault["call"], fault["exc"], fault["kind"])
            try:
                _call_real(setup, op)
                r_exc = None
            except Exception as e:
                r_exc = e
            fired = list(plan.fired)
            obs = observe(setup, m.kind)
            if op.get("kw", {}).get("overwrite_data") and (fired or m_exc is not None or r_exc is not None):
                # a call the user asked to work in place failed half-way: there is no "before" to compare with and the
                # property promises none - the history ends here, unjudged (the generator avoids such calls; replays
                # and minimiser candidates may still contain them)
                inc("probe.inplace_call_failed_unjudged")
                res["sig"].append(f"{k}:inplace_failed")
                res["states"].append(m.abstract())
                log.add({"step": step, "op": op, "outcome": "inplace_failed"})
                stop = True  # nothing after this point is judged, the final state included
                break
            if fired:
                inc("fault.fired.sci_exc")
                if fired[0]["call"] > 0:
                    inc("probe.fault_on_dataset_gt0")
                outcome = "fault"
                # relaxed: uniformly "not applied" or uniformly "applied"; never a mixture
                vb, kb = cmp_state(m, obs, m.ds, m.fs, m.T_stale, "after faulted op (as not applied)")
                if vb:
                    T_after = [d.shape[0] / nfs / op["q"] for d in new] if k == "decimate" else m.T_stale
                    va, ka = cmp_state(m, obs, new, nfs, T_after, "after faulted op (as applied)")
                    if va:
                        stop |= violate("fault.mixed_state", op, step,
                                        f"neither before nor after: before->{vb[0][1]}; after->{va[0][1]}")
                    else:
                        m.commit(op, new, nfs)
                        inc("probe.fault_op_applied_anyway")
                        for o, d in ka:
                            violate(o, op, step, d, is_known=True)
                else:
                    for o, d in kb:
                        violate(o, op, step, d, is_known=True)
                if r_exc is None and not stop:
                    inc("probe.fault_swallowed")
            elif m_exc is not None:
                outcome = "nat_exc"
                inc("fault.fired.nat_exc")
                if r_exc is None:
                    stop |= violate("exc.missing", op, step,
                                    f"scipy raises {type(m_exc).__name__}: {m_exc}; the setup call returned normally")
                # state must be unchanged
                vb, kb = cmp_state(m, obs, m.ds, m.fs, m.T_stale, "after failed op")
                for o, d in vb:
                    stop |= violate("fault.mixed_state", op, step, f"{o}: {d}")
                for o, d in kb:
                    violate(o, op, step, d, is_known=True)
            else:
                if fault:
                    inc("fault.configured_not_fired")
                if r_exc is not None:
                    outcome = "rejected"
                    stop |= violate("kw.rejected", op, step,
                                    f"scipy accepts the call; setup raised {type(r_exc).__name__}: {r_exc}")
                else:
                    prev_flags = dict(m.flags), m.ndec
                    m.commit(op, new, nfs)
                    changed += 1
                    if k == "decimate" and prev_flags[0]["filt"]:
                        inc("probe.filter_then_decimate")
                    if k == "decimate" and prev_flags[1] >= 1:
                        inc("probe.decimate_twice")
                    if k == "filter" and prev_flags[1] >= 1:
                        inc("probe.filter_after_decimate")
                    if op.get("kw"):
                        inc(f"probe.kw.{k}")
                    v, kn = cmp_state(m, obs, m.ds, m.fs, m.T_stale, f"after {k}")
                    for o, d in v:
                        stop |= violate(o, op, step, d)
                    for o, d in kn:
                        violate(o, op, step, d, is_known=True)
        # invariants after every operation
        if _S.pop("wn_mutated", False):
            stop |= violate("user.mutated", op, step, "the Wn array passed to filter_data was modified in place")
        for i, a in enumerate(arrays):
            if h_array(owners[i]) != user_hash[i] or user_list[i] is not a:
                stop |= violate("user.mutated", op, step, f"user array {i} changed")
        if user_ref is not None and [[int(c) for c in r] for r in user_ref] != world.get("ref_ind"):
            stop |= violate("user.mutated", op, step, "user reference index list changed")
        if float(world["_user_fs"]) != float(world["fs"]):
            stop |= violate("user.mutated", op, step, f"the sampling-frequency object passed by the user changed: {world['_user_fs']!r}")
        for name, alg, h in bound:
            if _hash_handed(getattr(alg, "data", None)) != h:
                # what an algorithm was handed equals the operations applied up to its addition - and stays so
                # (also C15's business: "the data bound when it was added")
                stop |= violate("bind.handed_changed", op, step,
                                f"the data handed to {name} when it was added was changed by a later {k}")
                break
        res["sig"].append(f"{k}:{outcome}")
        res["states"].append(m.abstract())
        log.add({"step": step, "op": op, "outcome": outcome, "state": m.abstract(),
                 "fs": m.fs, "h": [h_array(d) for d in m.ds],
                 "viol": [x["fingerprint"] for x in res["violations"]]})
    # history check: final state equals the model folded over the successful operations
    if not stop:
        v, kn = cmp_state(m, observe(setup, m.kind), m.ds, m.fs, m.T_stale, "final")
        for o, d in v:
            violate(o, res["ops"][-1] if res["ops"] else None, len(res["ops"]) - 1, "final: " + d)
    return _finish(res, log, m)


def _hash_handed(x):
    if isinstance(x, np.ndarray):
        return h_array(x)
    if isinstance(x, (list, tuple)):
        return "|".join(
            ",".join(f"{k}={h_array(v)}" for k, v in sorted(d.items())) if isinstance(d, dict) else "?" for d in x
        )
    return repr(type(x))


def _finish(res, log, m):
    log.add({"violations": res["violations"], "known": [x["fingerprint"] for x in res["known"]]})
    res["digest"] = log.digest()
    res["log"] = log.dump()
    sig = [s for s in res["sig"]]
    res["signature"] = res["world"]["kind"] + "|" + ">".join(sig)
    kinds = [s.split(":")[0] for s in sig if not s.startswith(("foreign:", "peek:"))]
    res["opseq3"] = [res["world"]["kind"] + "|" + ">".join(kinds[:n]) for n in range(1, min(4, len(kinds)) + 1)]
    ok_changes = sum(1 for s in sig if s.split(":")[1] == "ok" and s.split(":")[0] in ("decimate", "detrend", "filter", "rollback"))
    res["nontrivial"] = ok_changes >= 2 or any(s.endswith(":fault") for s in sig)
    res["steps"] = len(sig)
    return res


# ---------------------------------------------------------------------------------------------
# shrinking beyond "drop steps": simpler worlds and arguments
# ---------------------------------------------------------------------------------------------
def shrink_candidates(case):
    """Yield simpler variants of a failing case (world and argument simplifications)."""
    w, ops = case["world"], case["ops"]
    # drop faults
    for i, op in enumerate(ops):
        if "fault" in op:
            o2 = copy.deepcopy(ops)
            del o2[i]["fault"]
            yield {"world": w, "ops": o2}
    # fewer datasets
    nds = len(w["ndat"])
    if nds > 1:
        for drop in range(nds):
            w2 = copy.deepcopy(w)
            for key in ("ndat", "nch", "ref_ind"):
                if key in w2:
                    del w2[key][drop]
            o2 = copy.deepcopy(ops)
            ok = True
            for op in o2:
                if "fault" in op:
                    if op["fault"]["call"] == drop:
                        ok = False
                    elif op["fault"]["call"] > drop:
                        op["fault"]["call"] -= 1
            if ok:
                yield {"world": w2, "ops": o2}
    # simpler world
    if w.get("trend"):
        w2 = copy.deepcopy(w)
        w2["trend"] = False
        yield {"world": w2, "ops": ops}
    if w.get("int_fs"):
        w2 = copy.deepcopy(w)
        w2["int_fs"] = False
        yield {"world": w2, "ops": ops}
    if w.get("alias01"):
        w2 = copy.deepcopy(w)
        w2.pop("alias01")
        yield {"world": w2, "ops": ops}
    if w.get("share_ref_obj"):
        w2 = copy.deepcopy(w)
        w2.pop("share_ref_obj")
        yield {"world": w2, "ops": ops}
    if w.get("ref_as", "list") != "list":
        w2 = copy.deepcopy(w)
        w2["ref_as"] = "list"
        yield {"world": w2, "ops": ops}
    if w.get("dtype", "float64") != "float64":
        w2 = copy.deepcopy(w)
        w2["dtype"] = "float64"
        yield {"world": w2, "ops": ops}
    if w.get("layout", "C") != "C":
        w2 = copy.deepcopy(w)
        w2["layout"] = "C"
        yield {"world": w2, "ops": ops}
    for i, n in enumerate(w["ndat"]):
        if n > 1200:
            w2 = copy.deepcopy(w)
            w2["ndat"][i] = 1200
            yield {"world": w2, "ops": ops}
        elif n > 300:
            w2 = copy.deepcopy(w)
            w2["ndat"][i] = 300
            yield {"world": w2, "ops": ops}
    for i, c in enumerate(w["nch"]):
        if c > 2 and (w["kind"] == "single" or max(w["ref_ind"][i]) < c - 1 and len(w["ref_ind"][i]) < c - 1):
            w2 = copy.deepcopy(w)
            w2["nch"][i] = c - 1
            yield {"world": w2, "ops": ops}
    # simpler arguments
    for i, op in enumerate(ops):
        if op["op"] == "decimate":
            if op["q"] != 2:
                o2 = copy.deepcopy(ops)
                o2[i]["q"] = 2
                yield {"world": w, "ops": o2}
            for key in list(op.get("kw", {})):
                o2 = copy.deepcopy(ops)
                del o2[i]["kw"][key]
                if not o2[i]["kw"]:
                    del o2[i]["kw"]
                yield {"world": w, "ops": o2}
        elif op["op"] == "detrend":
            for key in list(op.get("kw", {})):
                o2 = copy.deepcopy(ops)
                del o2[i]["kw"][key]
                if not o2[i]["kw"]:
                    del o2[i]["kw"]
                yield {"world": w, "ops": o2}
        elif op["op"] == "filter":
            if op.get("btype", "lowpass") != "lowpass" or op.get("order", 8) != 2:
                o2 = copy.deepcopy(ops)
                o2[i] = {"op": "filter", "Wn": round(0.4 * w["fs"] / 2 / 8, 6), "order": 2, "btype": "lowpass"}
                if "fault" in op:
                    o2[i]["fault"] = op["fault"]
                yield {"world": w, "ops": o2}


def extra_coverage(agg):
    seqs = agg.sets.get("opseq3", ())
    le3 = [q for q in seqs if q.count(">") <= 2]
    return {
        "op_kind_sequences_len_le3_reached": len(le3),
        "op_kind_sequences_len_le3_possible": 2 * (5 + 25 + 125),
        "op_kind_sequences_len_le4_reached": len(seqs),
        "op_kind_sequences_len_le4_possible": 2 * (5 + 25 + 125 + 625),
        "note_on_enumeration": "the property's quantifier mentions exhaustive enumeration up to length 4; enumeration is model "
                               "checking, not this technique - sequences are sampled and the reach over operation-kind sequences "
                               "of length <= 3 x {single, preger} is measured instead",
    }


RULE = (
    "one evaluation = one seeded history of 1-6 (thorough: up to 10) operations from {decimate, detrend, filter, rollback, "
    "add_algorithms} - sometimes repeated verbatim after a rollback, interleaved with operations on another setup object "
    "or with read-only plotting calls - on a real SingleSetup or MultiSetup_PreGER (1-3 datasets, 2-5 channels, any "
    "reference layout, several dtypes / memory layouts / forms of fs and of the arguments, now and then a record of more "
    "than a million samples), scipy faults injected on the k-th per-dataset call; distinct = distinct history "
    "signature (setup class + sequence of (operation kind, outcome class)); non-trivial = at least two "
    "state-changing operations succeeded or at least one fault fired inside an operation"
)

COMPONENTS = {
    "real": ["pyoma2.setup.SingleSetup", "pyoma2.setup.MultiSetup_PreGER", "pyoma2.setup.base.BaseSetup helpers",
             "pyoma2.functions.gen.filter_data / pre_multisetup", "pyoma2 algorithm constructors and _set_data",
             "scipy.signal (decimate, detrend, butter, sosfiltfilt)", "numpy"],
    "stub": ["counting/raising wrappers bound to pyoma2.setup.base.{decimate,detrend,filter_data} (forward to real scipy)"],
}
