"""C16 - interactive pole picking hands over exactly the picked (frequency, order) pairs.

World  : the real SelFromPlot dialog reached through setup.mpe_from_plot(), for the SSI, pLSCF and
         FDD variants, over pole tables from real runs or generated tables in real result objects.
History: seeded stream of key / mouse / menu / resize / close events, with loss, duplication and
         reordering, delivered as real matplotlib events by the simulated Tk main loop.
Oracle : a list-of-pairs model fed with the delivered stream (DESIGN section 6).
"""
import copy
import random

import numpy as np

from sim import datagen, tksim
from sim import env as _env
from sim.canon import EventLog, h_obj

PROPERTY = "C16"
CHUNK = 4
MAX_CANDS = 3000
MAX_EVENTS = 60

_S = {}


# ---------------------------------------------------------------------------------------------
# seams
# ---------------------------------------------------------------------------------------------
def init_worker():
    if _S:
        return
    import matplotlib

    matplotlib.use("Agg", force=True)
    import pyoma2.algorithms.fdd as afdd
    import pyoma2.algorithms.plscf as aplscf
    import pyoma2.algorithms.ssi as assi
    import pyoma2.support.sel_from_plot as sfp

    tksim.install(sfp)
    Base = sfp.SelFromPlot

    class RecordingSelFromPlot(Base):
        """Same dialog; remembers what it handed over (the public `.result`)."""

        def __init__(self, *a, **k):
            d = tksim.CUR["drv"]
            if d is not None:
                d.dialog = self
            super().__init__(*a, **k)
            if d is not None:
                d.handover = copy.deepcopy(getattr(self, "result", None))
                d.handover_seen = True

    n = 0
    for mod in (assi, aplscf, afdd):
        if getattr(mod, "SelFromPlot", None) is Base:
            mod.SelFromPlot = RecordingSelFromPlot
            n += 1
    _S["capture_sites"] = n
    _S["sfp"] = sfp
    from sim.seams import GlobalStateGuard

    _S["guard"] = GlobalStateGuard("pyoma2")  # after the seams are in place: their bindings are part of "pristine"


# ---------------------------------------------------------------------------------------------
# world
# ---------------------------------------------------------------------------------------------
def gen_world(rng: random.Random):
    variant = rng.choice(["SSI", "SSI", "pLSCF", "FDD"])
    r = rng.random()
    if variant == "SSI":
        cls = rng.choice(["SSIcov", "SSIdat"])
        source = "table" if r < 0.6 else "run"
    elif variant == "pLSCF":
        cls = "pLSCF"
        source = "table" if r < 0.6 else "run"
    else:
        cls = rng.choice(["FDD", "FDD", "EFDD", "FSDD"])
        source = "run" if (cls in ("EFDD", "FSDD") or r < 0.6) else "table"
    if source == "table" and cls in ("SSIcov", "SSIdat", "pLSCF", "FDD") and rng.random() < 0.2:
        cls += "_MS"  # the multi-setup classes inherit the dialog and the extraction: same behaviour expected
    fs = rng.choice([20.0, 50.0, 100.0, 128.0])
    w = {"variant": variant, "cls": cls, "source": source, "fs": fs, "seed": rng.getrandbits(40)}
    if source == "run":
        w.update({"ndat": rng.randint(600, 1400), "nch": rng.randint(3, 4), "nmodes": rng.randint(1, 3)})
        if variant == "SSI":
            w.update({"br": rng.randint(4, 6), "ordmax": rng.choice([6, 8, 10, 12]), "step": 1,
                      "permissive": rng.random() < 0.7, "ordmin": rng.choice([0, 0, 0, 2, 3])})
        elif variant == "pLSCF":
            w.update({"ordmax": rng.randint(4, 8), "nxseg": rng.choice([64, 128]), "permissive": rng.random() < 0.8,
                      "ordmin": rng.choice([0, 0, 0, 1, 2])})
        else:
            nx = rng.choice([128, 256]) if cls in ("EFDD", "FSDD") else rng.choice([64, 128, 256])
            if rng.random() < 0.3:
                nx -= 1  # an odd segment length is legal: the frequency axis then stops short of fs/2
            w.update({"nxseg": nx, "method_SD": rng.choice(["per", "cor"])})
            df = fs / nx
            if cls in ("EFDD", "FSDD"):
                w["ndat"] = rng.randint(1500, 2500)
                w["mpe_kw"] = {"DF1": round(rng.uniform(1.2, 3) * df, 6), "DF2": round(rng.uniform(4, 8) * df, 6),
                               "sppk": rng.choice([0, 1, 2]), "npmax": rng.choice([4, 6, 8])}
            else:
                w["mpe_kw"] = {"DF": round(rng.uniform(0.4, 4) * df, 6)}
    else:
        if variant == "FDD":
            w.update({"nf": rng.randint(9, 129), "nch": rng.randint(2, 4), "odd_nxseg": rng.random() < 0.3})
            w["mpe_kw"] = {"DF": round(rng.uniform(0.4, 4) * (fs / 2) / (w["nf"] - 1), 6)}
        else:
            w.update({"nrows": rng.randint(1, 12), "ncols": rng.randint(2, 12), "nch": rng.randint(2, 4),
                      "nmodes": rng.randint(1, 4), "p_nan": rng.choice([0.0, 0.2, 0.5, 0.8]),
                      "dups": rng.random() < 0.4, "empty_cols": rng.random() < 0.3,
                      "stable_mode": rng.random() < 0.25, "near_twins": rng.random() < 0.25,
                      "retable": rng.random() < 0.5,
                      "cov": variant == "SSI" and rng.random() < 0.25})
            w["ordmin"] = rng.choice([0, 0, 0, 1, 2, w["ncols"] // 2])
    if variant in ("SSI", "pLSCF") and rng.random() < 0.4:
        # the tolerance of the extraction step: picks are exact table entries, so every legal value - 0 included - must
        # extract exactly the picked poles
        w["mpe_kw"] = {"rtol": rng.choice([0.0, 0.0, 1e-6, 1e-3, 5e-2, 0.5])}
    r = rng.random()
    if r < 0.5:
        w["freqlim"] = None
    else:
        a = rng.uniform(-0.1, 0.2) * fs / 2  # the limits are the user's choice: they may start below 0 Hz ...
        b = rng.uniform(0.5, 1.1) * fs / 2  # ... and end beyond the Nyquist frequency
        w["freqlim"] = [round(a, 4), round(b, 4)]
    w["log_debug"] = rng.random() < 0.1  # the package logger at DEBUG level: must not change anything
    return w


def gen_table(w):
    """Arbitrary pole table (NaN patterns, empty orders, duplicates, close frequencies)."""
    rng = np.random.Generator(np.random.PCG64(w["seed"]))
    nr, nc, nch = w["nrows"], w["ncols"], w["nch"]
    fs = w["fs"]
    modes = np.sort(rng.uniform(0.05, 0.45, size=w["nmodes"])) * fs
    if w["nmodes"] >= 2 and rng.random() < 0.4:
        modes[1] = modes[0] * (1 + rng.uniform(0.001, 0.01))  # closely spaced pair
    Fn = np.full((nr, nc), np.nan)
    for c in range(nc):
        vals = []
        for fm in modes:
            if rng.random() < 0.75:
                vals.append(fm * (1 + rng.normal(0, 0.003)))
        while len(vals) < nr and rng.random() < 0.5:
            vals.append(rng.uniform(0.01, 0.49) * fs)
        vals = vals[:nr]
        rows = rng.permutation(nr)[: len(vals)]
        for r_, v in zip(rows, vals):
            Fn[r_, c] = v
    mask = rng.random((nr, nc)) < w["p_nan"]
    Fn[mask] = np.nan
    if w["dups"]:
        ok = np.argwhere(~np.isnan(Fn))
        for _ in range(min(3, len(ok))):
            r0, c0 = ok[rng.integers(len(ok))]
            r1 = rng.integers(nr)
            c1 = c0 if rng.random() < 0.5 else rng.integers(nc)
            Fn[r1, c1] = Fn[r0, c0]
    if w.get("stable_mode") and np.isfinite(Fn).any():
        # a perfectly stable pole: the bit-identical frequency at most model orders (legal, and what a noise-free
        # or strongly dominant mode gives) - equal frequencies then belong to different orders
        fin = Fn[np.isfinite(Fn)]
        fstar = fin[rng.integers(len(fin))]
        for c in range(nc):
            if rng.random() < 0.8:
                col = Fn[:, c]
                r_ = int(np.nanargmin(np.abs(col - fstar))) if np.isfinite(col).any() else int(rng.integers(nr))
                Fn[r_, c] = fstar
    if w.get("near_twins") and nr >= 2 and np.isfinite(Fn).any():
        # two DIFFERENT retained poles at the same order whose frequencies agree to 1e-7 .. 1e-6 relative (repeated
        # eigenfrequencies of a symmetric structure): they differ in damping and shape, and a pick of the second must
        # not be extracted as the first
        ok = np.argwhere(np.isfinite(Fn))
        for _ in range(min(3, len(ok))):
            r0, c0 = ok[rng.integers(len(ok))]
            r1 = int((r0 + 1 + rng.integers(nr - 1)) % nr)
            Fn[r1, c0] = Fn[r0, c0] * (1.0 + rng.choice([-1.0, 1.0]) * rng.uniform(1e-7, 1e-6))
    if w["empty_cols"]:
        Fn[:, rng.integers(nc)] = np.nan
    nanm = np.isnan(Fn)
    Lab = np.where(nanm, 0, (rng.random((nr, nc)) < 0.6).astype(int))
    rr, cc = np.meshgrid(np.arange(nr), np.arange(nc), indexing="ij")
    Xi = np.where(nanm, np.nan, 0.001 * (1 + rr * nc + cc))
    Phi = ((rr + 1)[:, :, None] + 1j * (cc + 1)[:, :, None]) * (1 + 0.25 * np.arange(nch))[None, None, :]
    Phi = np.where(nanm[:, :, None], np.nan, Phi)
    cov = None
    if w.get("cov"):
        cov = (np.where(nanm, np.nan, rng.uniform(1e-4, 1e-2, (nr, nc))),
               np.where(nanm, np.nan, rng.uniform(1e-4, 1e-2, (nr, nc))),
               np.where(nanm[:, :, None], np.nan, rng.uniform(1e-4, 1e-2, (nr, nc, nch))))
    return Fn, Xi, Phi, Lab, cov


def gen_spectrum(w):
    rng = np.random.Generator(np.random.PCG64(w["seed"]))
    nf, nch = w["nf"], w["nch"]
    freq = np.linspace(0.0, w["fs"] / 2, nf)
    if w.get("odd_nxseg"):
        # what an odd segment length gives: lines k*fs/nxseg, k = 0..(nxseg-1)/2 - the axis stops short of fs/2
        freq = np.arange(nf) * (w["fs"] / (2 * nf - 1))
    s = np.sort(rng.uniform(0.01, 1.0, size=(nch, nf)), axis=0)[::-1]
    for _ in range(rng.integers(1, 4)):
        k = rng.integers(1, nf - 1) if nf > 2 else 0
        s[0, max(0, k - 1): k + 2] *= rng.uniform(5, 50)
    S_val = np.zeros((nch, nch, nf))
    for k in range(nch):
        S_val[k, k, :] = s[k]
    S_vec = rng.standard_normal((nch, nch, nf)) + 1j * rng.standard_normal((nch, nch, nf))
    Sy = rng.standard_normal((nch, nch, nf)) + 0j
    return freq, Sy, S_val, S_vec


PERMISSIVE = dict(conj=False, xi_max=1.0, mpc_lim=0.0, mpd_lim=2.0, cov_max=10.0)


def build(w):
    """Real setup + real algorithm holding a result, ready for mpe_from_plot."""
    import pyoma2.algorithms as A
    from pyoma2.algorithms.data.result import FDDResult, SSIResult, pLSCFResult
    from pyoma2.setup import SingleSetup

    cls = getattr(A, w["cls"])
    fs = w["fs"]
    if w["source"] == "run":
        data = datagen.resonator_record(w["seed"], w["ndat"], w["nch"], fs, nmodes=w["nmodes"])
        ss = SingleSetup(data, fs=fs)
        if w["variant"] == "SSI":
            kw = dict(br=w["br"], ordmax=w["ordmax"], step=w["step"], ordmin=w.get("ordmin", 0))
            if w["permissive"]:
                kw["hc"] = dict(PERMISSIVE)
            alg = cls(name="alg", **kw)
        elif w["variant"] == "pLSCF":
            kw = dict(ordmax=w["ordmax"], nxseg=w["nxseg"], ordmin=w.get("ordmin", 0))
            if w["permissive"]:
                kw["hc"] = {k: v for k, v in PERMISSIVE.items() if k != "cov_max"}
            alg = cls(name="alg", **kw)
        else:
            alg = cls(name="alg", nxseg=w["nxseg"], method_SD=w["method_SD"])
        ss.add_algorithms(alg)
        ss.run_by_name("alg")
        return ss, alg
    data = np.zeros((16, w["nch"]))
    ss = SingleSetup(data, fs=fs)
    if w["variant"] == "FDD":
        alg = cls(name="alg", nxseg=2 * w["nf"] - 1 if w.get("odd_nxseg") else 2 * (w["nf"] - 1))
        ss.add_algorithms(alg)
        freq, Sy, S_val, S_vec = gen_spectrum(w)
        alg._set_result(FDDResult(freq=freq, Sy=Sy, S_val=S_val, S_vec=S_vec))
        return ss, alg
    Fn, Xi, Phi, Lab, cov = gen_table(w)
    nc = Fn.shape[1]
    if w["variant"] == "SSI":
        alg = cls(name="alg", br=4, ordmax=nc - 1, ordmin=min(w.get("ordmin", 0), nc - 1), step=1)
        ss.add_algorithms(alg)
        kw = {}
        if cov is not None:
            kw = dict(Fn_poles_cov=cov[0], Xi_poles_cov=cov[1], Phi_poles_cov=cov[2])
        alg._set_result(SSIResult(Fn_poles=Fn, Xi_poles=Xi, Phi_poles=Phi, Lab=Lab, **kw))
    else:
        alg = cls(name="alg", ordmax=nc, ordmin=min(w.get("ordmin", 0), nc - 1), nxseg=64)
        ss.add_algorithms(alg)
        alg._set_result(pLSCFResult(Fn_poles=Fn, Xi_poles=Xi, Phi_poles=Phi, Lab=Lab))
    return ss, alg


# ---------------------------------------------------------------------------------------------
# list-of-pairs model over candidate selections
# ---------------------------------------------------------------------------------------------
def _sel_key(sel):
    return tuple(sorted(sel, key=lambda p: (p[0], -1 if p[1] is None else p[1])))


class PickModel:
    def __init__(self, variant, Fn_poles=None, freq=None):
        self.variant = variant
        self.Fn = Fn_poles
        self.freq = freq
        self.cands = {()}
        self.seen_shift = False
        self.overflow = False
        self.last_action = "none"
        self.n_actions = 0
        self.n_picks = 0

    # -- what a pick may select -------------------------------------------------------------
    def pick_options(self, x, y, xr, yr):
        """All (freq, col) a correct dialog may select for a click at data coords (x, y)."""
        if self.variant == "FDD":
            d = np.abs(self.freq - x)
            tol = 1e-9 * max(1.0, xr)
            idx = np.flatnonzero(d <= d.min() + tol)
            return [(float(self.freq[i]), None) for i in idx], len(idx) > 1
        ncols = self.Fn.shape[1]
        dc = np.abs(np.arange(ncols) - y)
        tol_y = 1e-9 * max(1.0, yr)
        cols = np.flatnonzero(dc <= dc.min() + tol_y)
        out = []
        amb = len(cols) > 1
        for c in cols:
            col = self.Fn[:, c]
            ok = ~np.isnan(col)
            if not ok.any():
                out.append(None)  # nothing retained at this order: no change
                continue
            d = np.abs(col - x)
            dmin = np.nanmin(d)
            tol = 1e-9 * max(1.0, xr)
            rows = np.flatnonzero(ok & (d <= dmin + tol))
            vals = sorted({float(col[r]) for r in rows})
            if len(vals) > 1:
                amb = True
            out += [(v, int(c)) for v in vals]
        return out, amb

    def _set(self, new):
        if len(new) > MAX_CANDS:
            self.overflow = True
            new = set(list(sorted(new))[:MAX_CANDS])
        self.cands = new

    def click(self, button, x, y, phys_shift, xr, yr):
        """Update candidates for one delivered button press. Returns an action label or None."""
        if x is None or y is None:
            inside = False
        else:
            inside = True
        held_options = {self.seen_shift, phys_shift}
        acted = None
        new_acted = None
        if button == 1 and inside:
            opts, amb = self.pick_options(x, y, xr, yr)
            new_acted = set()
            for s in self.cands:
                for o in opts:
                    new_acted.add(s if o is None else _sel_key(s + (o,)))
            acted = "pick"
        elif button == 3:
            new_acted = set()
            for s in self.cands:
                if not s:
                    new_acted.add(s)
                for i in range(len(s)):
                    new_acted.add(s[:i] + s[i + 1:])
                if not inside:
                    new_acted.add(s)  # a deselect-one click outside the axes may be ignored
            acted = "desel_one"
        elif button == 2 and inside:
            new_acted = set()
            tol = 1e-9 * max(1.0, xr)
            for s in self.cands:
                if not s:
                    new_acted.add(s)
                    continue
                d = [abs(p[0] - x) for p in s]
                dm = min(d)
                for i, di in enumerate(d):
                    if di <= dm + tol:
                        new_acted.add(s[:i] + s[i + 1:])
            acted = "desel_nearest"
        if new_acted is None:
            return None
        if held_options == {True}:
            changed = new_acted != self.cands
            self._set(new_acted)
        elif held_options == {False}:
            return None
        else:  # key state ambiguous after a lost/duplicated key event: either reading is acceptable
            changed = new_acted != self.cands
            self._set(self.cands | new_acted)
        if changed:
            self.last_action = acted
            self.n_actions += 1
            if acted == "pick":
                self.n_picks += 1
        return acted


# ---------------------------------------------------------------------------------------------
# the driver: event source + pump + model
# ---------------------------------------------------------------------------------------------
class Driver:
    def __init__(self, w, alg, rng, swarm, ops_in, res, log, base=0):
        self.w, self.alg, self.rng, self.swarm, self.ops_in = w, alg, rng, swarm, ops_in
        self.base = base  # index of this dialog's first event in the flat event list
        self.res, self.log = res, log
        self.canvas = self.root = self.dialog = None
        self.commands = {}
        self.dirs = set()
        self.saved = {}
        self.infos = 0
        self.handover = None
        self.handover_seen = False
        self.delivered = 0
        self.phys_shift = False
        self.pending = []  # events held back by a swap / duplicate
        self.closed_sent = False
        self.viol = []
        self.harness = None
        r = alg.result
        if w["variant"] == "FDD":
            self.model = PickModel("FDD", freq=np.asarray(r.freq, dtype=float))
        else:
            self.model = PickModel(w["variant"], Fn_poles=np.asarray(r.Fn_poles, dtype=float))
        self.fault_next_save = False

    # -- counters ---------------------------------------------------------------------------
    def inc(self, k, by=1):
        c = self.res["counters"]
        c[k] = c.get(k, 0) + by

    def violate(self, oracle, step, detail):
        fp = f"{oracle}@{self.w['variant']}/{self.model.last_action}"
        self.res["violations"].append({"oracle": oracle, "fingerprint": fp, "step": step, "detail": detail})

    # -- the axes ---------------------------------------------------------------------------
    def ax(self):
        axes = self.canvas.figure.axes
        return axes[0] if axes else None

    # -- event generation (online, from the PRNG) -------------------------------------------
    def _gen_click_xy(self, near_selected=False):
        rng, ax = self.rng, self.ax()
        x0, x1 = ax.get_xlim()
        y0, y1 = ax.get_ylim()
        r = rng.random()
        m = self.model
        if near_selected and rng.random() < 0.7:
            sel = sorted(m.cands)[0]
            if sel:
                f = rng.choice(sel)[0]
                return {"x": float(f + rng.gauss(0, 0.01) * (x1 - x0)), "y": float(rng.uniform(y0, y1))}
        if m.variant != "FDD" and not near_selected and rng.random() < 0.12:
            # the frequency of an entry that is already selected, at ANOTHER order that holds the very same value
            sel = [p for p in sorted(m.cands)[0]] if m.cands else []
            if sel:
                f, o = rng.choice(sel)
                others = [c for c in range(m.Fn.shape[1]) if c != o and (m.Fn[:, c] == f).any()]
                if others:
                    self.inc("probe.pick_equal_frequency_at_other_order")
                    return {"x": float(f), "y": float(rng.choice(others)), "snap": True}
        if r < 0.10:
            # outside the axes: pixel coordinates beyond the bounding box
            bb = ax.bbox
            px = rng.choice([bb.x0 - rng.uniform(1, 40), bb.x1 + rng.uniform(1, 40), rng.uniform(bb.x0, bb.x1)])
            py = rng.choice([bb.y0 - rng.uniform(1, 30), bb.y1 + rng.uniform(1, 30)])
            return {"px": round(float(px), 3), "py": round(float(py), 3)}
        lo_d, hi_d = (float(m.freq[0]), float(m.freq[-1])) if m.variant == "FDD" else (
            (float(np.nanmin(m.Fn)), float(np.nanmax(m.Fn))) if np.isfinite(m.Fn).any() else (0.0, 0.0))
        beyond = [(min(x0, x1), lo_d)] if min(x0, x1) < lo_d else []
        beyond += [(hi_d, max(x0, x1))] if max(x0, x1) > hi_d else []
        if beyond and rng.random() < 0.12:
            # the view (after a zoom / pan, or through freqlim) extends beyond the table: click out there, at a
            # frequency below the first or above the last pole / frequency line (possibly negative)
            a_, b_ = rng.choice(beyond)
            return {"x": float(rng.uniform(a_, b_)), "y": float(rng.uniform(y0, y1))}
        if m.variant != "FDD":
            # the same for the order axis: below order 0 (negative ydata) or above the last order of the table
            ncols = m.Fn.shape[1]
            ybeyond = [(min(y0, y1), -0.5)] if min(y0, y1) < -0.5 else []
            ybeyond += [(ncols - 0.5, max(y0, y1))] if max(y0, y1) > ncols - 0.5 else []
            if ybeyond and rng.random() < (0.4 if self.swarm.get("zoom_out_first") else 0.15):
                a_, b_ = rng.choice(ybeyond)
                fin = m.Fn[np.isfinite(m.Fn)]
                x = float(fin[rng.randrange(len(fin))]) + rng.gauss(0, 0.004) * (x1 - x0) if len(fin) and rng.random() < 0.7 else rng.uniform(x0, x1)
                self.inc("probe.click_beyond_order_range")
                return {"x": float(x), "y": float(rng.uniform(a_, b_))}
        if rng.random() < 0.06:
            # a coordinate that is exactly a special value: a table frequency / frequency line, 0 Hz, an axis limit
            if m.variant == "FDD":
                cands = [0.0, float(m.freq[rng.randrange(len(m.freq))]), float(x0), float(x1)]
            else:
                fin = m.Fn[np.isfinite(m.Fn)]
                cands = [0.0, float(x0), float(x1)] + ([float(fin[rng.randrange(len(fin))])] if len(fin) else [])
            x = rng.choice(cands)
            y = float(rng.uniform(y0, y1)) if m.variant == "FDD" or rng.random() < 0.5 else float(rng.randrange(m.Fn.shape[1]))
            return {"x": x, "y": y, "snap": True}
        if m.variant == "FDD":
            if r < 0.7:
                f = m.freq[rng.randrange(len(m.freq))]
                df = m.freq[1] - m.freq[0] if len(m.freq) > 1 else 1.0
                x = f + rng.uniform(-0.49, 0.49) * df
            elif r < 0.8 and len(m.freq) > 1:
                i = rng.randrange(len(m.freq) - 1)
                x = 0.5 * (m.freq[i] + m.freq[i + 1])  # exactly between two lines
            else:
                x = rng.uniform(x0, x1)
            return {"x": float(x), "y": float(rng.uniform(y0, y1))}
        ok = np.argwhere(~np.isnan(m.Fn))
        if len(ok) and rng.random() < 0.8:
            # most of the time aim at poles that are inside the current view (a click outside the axes is a stray)
            vis = [rc for rc in ok if min(x0, x1) <= m.Fn[tuple(rc)] <= max(x0, x1) and min(y0, y1) + 0.3 <= rc[1] <= max(y0, y1) - 0.3]
            if vis:
                ok = np.array(vis)
        if m.variant != "FDD" and rng.random() < 0.07:
            # at the edge of the view, at the order of a retained pole that lies OUTSIDE the view (freqlim, zoom): the
            # nearest pole at that order may well be the invisible one - it is selected although no marker shows
            lo_v, hi_v = min(x0, x1), max(x0, x1)
            out = [tuple(rc) for rc in np.argwhere(~np.isnan(m.Fn)) if not (lo_v <= m.Fn[tuple(rc)] <= hi_v)]
            if out:
                rc = rng.choice(out)
                edge = lo_v + 0.01 * (hi_v - lo_v) if m.Fn[rc] < lo_v else hi_v - 0.01 * (hi_v - lo_v)
                self.inc("probe.click_at_view_edge_towards_invisible_pole")
                return {"x": float(edge), "y": float(rc[1] + rng.uniform(-0.4, 0.4))}
        if r < 0.70 and len(ok):
            # near a retained pole; biased to descending frequency order half of the time
            if self.swarm.get("descending") and m.n_picks and rng.random() < 0.7:
                cur = min(min(p[0] for p in s) if s else np.inf for s in m.cands)
                lower = [tuple(rc) for rc in ok if m.Fn[tuple(rc)] < cur]
                rc = rng.choice(lower) if lower else tuple(ok[rng.randrange(len(ok))])
            else:
                rc = tuple(ok[rng.randrange(len(ok))])
            f = m.Fn[rc]
            x = f + rng.gauss(0, 0.004) * (x1 - x0)
            y = rc[1] + rng.uniform(-0.45, 0.45)
        elif r < 0.80:
            ncols = m.Fn.shape[1]
            c = rng.randrange(max(1, ncols - 1))
            y = c + 0.5  # exactly between two orders
            x = rng.uniform(x0, x1)
            col = m.Fn[:, c][~np.isnan(m.Fn[:, c])]
            if len(col) >= 2 and rng.random() < 0.5:
                a, b = rng.sample(list(col), 2)
                x = 0.5 * (a + b)  # exactly between two poles
                y = c + rng.uniform(-0.3, 0.3)
        else:
            x = rng.uniform(x0, x1)
            y = rng.uniform(y0, y1)
        return {"x": float(x), "y": float(y)}

    def _gen_event(self):
        rng, sw = self.rng, self.swarm
        W = sw["w"]
        if sw.get("zoom_out_first") and not getattr(self, "_zoomed_out", False):
            self._zoomed_out = True
            return {"ev": "zoom", "fx": [round(rng.uniform(-0.3, -0.05), 3), round(rng.uniform(1.05, 1.3), 3)],
                    "fy": [round(rng.uniform(-0.4, -0.1), 3), round(rng.uniform(1.05, 1.3), 3)]}
        plan = sw.get("plan")
        if plan:
            # a hand with a purpose: phases of picking and of deselecting, modifier held throughout
            if not self.phys_shift:
                if rng.random() < 0.85:
                    return {"ev": "key_press", "key": "shift"}
            else:
                kind, left = plan[0]
                if left <= 0:
                    plan.pop(0)
                else:
                    plan[0] = (kind, left - 1)
                    if rng.random() < 0.9:
                        b = 1 if kind == "pick" else 3 if kind == "desel3" else rng.choice([2, 2, 3])
                        e = {"ev": "click", "button": b, "mods": ["shift"]}
                        e.update(self._gen_click_xy(near_selected=(b == 2)))
                        return e
        if self.phys_shift:
            kinds = [("b1", W["b1"]), ("b3", W["b3"]), ("b2", W["b2"]), ("rel", W["rel"]), ("menu", W["menu"]),
                     ("noise", W["noise"])]
        else:
            kinds = [("press", W["press"]), ("b1", 0.25 * W["b1"]), ("b3", 0.25 * W["b3"]), ("b2", 0.25 * W["b2"]),
                     ("menu", W["menu"]), ("noise", W["noise"])]
        k = rng.choices([a for a, _ in kinds], weights=[b for _, b in kinds])[0]
        if k == "press":
            return {"ev": "key_press", "key": "shift"}
        if k == "rel":
            return {"ev": "key_release", "key": "shift"}
        if k in ("b1", "b2", "b3"):
            e = {"ev": "click", "button": int(k[1]), "mods": ["shift"] if self.phys_shift else []}
            e.update(self._gen_click_xy())
            return e
        if k == "menu":
            labels = sorted(self.commands)
            if not labels:
                return {"ev": "key_press", "key": "a"}
            e = {"ev": "menu", "label": rng.choice(labels)}
            if e["label"] == "Save figure" and sw["faulty"] and rng.random() < 0.5:
                e["fault"] = {"kind": "fig_save_err"}
            return e
        r = rng.random()
        if r < 0.3:
            if self.phys_shift and rng.random() < 0.5:
                # a non-printable key used while SHIFT is down: the Tk backend names it "shift+<key>"
                return {"ev": rng.choice(["key_press", "key_release"]), "key": rng.choice(["shift+left", "shift+f1", "shift+tab", "shift+up"])}
            return {"ev": rng.choice(["key_press", "key_release"]), "key": rng.choice(["a", "control", "alt", "escape", "s"])}
        if r < 0.45:
            return {"ev": "resize", "w": round(rng.uniform(6, 14), 2), "h": round(rng.uniform(3.5, 8), 2)}
        if r < 0.65:
            # toolbar zoom / pan: a new view; later clicks map through the new transform
            a, b = sorted([round(rng.uniform(-0.35, 0.5), 3), round(rng.uniform(0.5, 1.35), 3)])
            c, d = sorted([round(rng.uniform(-0.3, 0.5), 3), round(rng.uniform(0.5, 1.3), 3)])
            return {"ev": "zoom", "fx": [a, b], "fy": [c, d]}
        e = {"ev": rng.choice(["motion", "release", "scroll"]), "mods": ["shift"] if self.phys_shift else []}
        e.update(self._gen_click_xy())
        return e

    def next_event(self):
        """Next event to deliver (applies loss / duplication / reordering in generated runs)."""
        if self.ops_in is not None:
            if self.base + self.delivered < len(self.ops_in):
                return copy.deepcopy(self.ops_in[self.base + self.delivered])
            return None
        if self.pending:
            return self.pending.pop(0)
        sw = self.swarm
        while True:
            if self.generated >= sw["nevents"]:
                return None
            self.generated += 1
            e = self._gen_event()
            # the physical key state follows what the user's hand did, delivered or not
            if e["ev"] in ("key_press", "key_release") and e["key"] == "shift":
                self.phys_shift = e["ev"] == "key_press"
            if sw["faulty"]:
                r = self.rng.random()
                if r < sw["p_drop"]:
                    self.inc("fault.fired.evt_drop")
                    if e["ev"].startswith("key") and e["key"] == "shift":
                        self.inc("probe.shift_event_lost")
                    continue
                if r < sw["p_drop"] + sw["p_dup"]:
                    self.inc("fault.fired.evt_dup")
                    e_dup = copy.deepcopy(e)
                    if e_dup["ev"] == "click":
                        # what a duplicated button press is on a real desktop: the second press of a fast double click,
                        # which the backend delivers as an ordinary press event flagged dblclick
                        e_dup["dblclick"] = True
                    self.pending.append(e_dup)
                elif r < sw["p_drop"] + sw["p_dup"] + sw["p_swap"] and self.generated < sw["nevents"]:
                    self.generated += 1
                    e2 = self._gen_event()
                    if e2["ev"] in ("key_press", "key_release") and e2["key"] == "shift":
                        self.phys_shift = e2["ev"] == "key_press"
                    self.inc("fault.fired.evt_swap")
                    self.pending.append(e)
                    return e2
            return e

    generated = 0

    # -- delivery ---------------------------------------------------------------------------
    def _pixel(self, e):
        if "px" in e:
            return e["px"], e["py"]
        ax = self.ax()
        px, py = ax.transData.transform((e["x"], e["y"]))
        return float(px), float(py)

    def on_savefig(self, fig, fname):
        if self.fault_next_save:
            self.fault_next_save = False
            self.inc("fault.fired.fig_save_err")
            raise OSError(13, "simulated: permission denied", fname)
        self.saved[fname] = len(tksim.render_png(fig)) if self.swarm is None or self.swarm.get("render") else 1
        self.inc("probe.figure_saved")

    def deliver(self, e, step):
        m = self.model
        kind = e["ev"]
        canvas = self.canvas
        before = set(m.cands)
        note = {}
        exc = None
        try:
            if kind in ("key_press", "key_release"):
                ev = tksim.make_key(canvas, kind + "_event", e["key"])
                if e["key"] == "shift":
                    m.seen_shift = kind == "key_press"
                tksim.deliver(canvas, ev)
            elif kind == "click":
                px, py = self._pixel(e)
                ev = tksim.make_mouse(canvas, "button_press_event", px, py, button=e["button"], mods=e.get("mods", ()),
                                      dblclick=bool(e.get("dblclick")))
                ax = self.ax()
                inside = ev.inaxes is ax and ev.xdata is not None
                if inside and e.get("snap"):
                    # the pixel -> data round trip may be off by an ulp; a real click can land on the value exactly
                    x0_, x1_ = ax.get_xlim()
                    if abs(float(ev.xdata) - e["x"]) <= 1e-9 * max(1.0, abs(x1_ - x0_)):
                        ev.xdata = np.float64(e["x"])
                        self.inc("probe.click_at_exact_special_coordinate")
                x0, x1 = ax.get_xlim()
                y0, y1 = ax.get_ylim()
                xd = float(ev.xdata) if inside else None
                yd = float(ev.ydata) if inside else None
                note = {"xdata": xd, "ydata": yd}
                phys = "shift" in e.get("mods", ())
                if phys != m.seen_shift:
                    self.inc("probe.click_with_ambiguous_shift")
                act = m.click(e["button"], xd, yd, phys, abs(x1 - x0), abs(y1 - y0))
                note["act"] = act
                if not inside:
                    self.inc("fault.fired.evt_stray")
                if act == "pick" and m.seen_shift and phys:
                    self._pick_probes(xd, yd)
                try:
                    tksim.deliver(canvas, ev)
                finally:
                    # a click is a press followed by a release at the same place (an implementation may listen to either)
                    rel = tksim.make_mouse(canvas, "button_release_event", px, py, button=e["button"], mods=e.get("mods", ()))
                    if inside and e.get("snap"):
                        rel.xdata = ev.xdata
                    tksim.deliver(canvas, rel)
            elif kind in ("motion", "release", "scroll"):
                px, py = self._pixel(e)
                name = {"motion": "motion_notify_event", "release": "button_release_event", "scroll": "scroll_event"}[kind]
                ev = tksim.make_mouse(canvas, name, px, py, button=1 if kind == "release" else None,
                                      mods=e.get("mods", ()), step=1 if kind == "scroll" else 0)
                self.inc("fault.fired.evt_stray")
                tksim.deliver(canvas, ev)
            elif kind == "resize":
                tksim.resize(canvas, e["w"], e["h"])
                self.inc("probe.resize")
            elif kind == "zoom":
                ax = self.ax()
                x0, x1 = ax.get_xlim()
                y0, y1 = ax.get_ylim()
                ax.set_xlim(x0 + e["fx"][0] * (x1 - x0), x0 + e["fx"][1] * (x1 - x0))
                ax.set_ylim(y0 + e["fy"][0] * (y1 - y0), y0 + e["fy"][1] * (y1 - y0))
                canvas.draw_idle()
                self.inc("probe.zoom")
            elif kind == "menu":
                cmd = self.commands.get(e["label"])
                if e.get("fault"):
                    self.fault_next_save = True
                self.inc("probe.menu." + e["label"].replace(" ", "_"))
                if cmd is not None:
                    cmd()
                self.fault_next_save = False
            elif kind == "close":
                self.closed_sent = True
                fn = self.root.protocols.get("WM_DELETE_WINDOW")
                if fn is not None:
                    fn()
                else:
                    self.root.quit()  # a toolkit without handler closes the window itself
            else:
                raise AssertionError(kind)
        except Exception as ex:  # Tk / matplotlib print the traceback and keep the loop running
            exc = f"{type(ex).__name__}"
            self.inc("probe.handler_exception")
            self.fault_next_save = False
        # optional probe on the dialog's own lists (never judged: a refactoring may keep them differently)
        d = self.dialog
        sf, pi = getattr(d, "sel_freq", None), getattr(d, "pole_ind", None)
        if isinstance(sf, list) and isinstance(pi, list) and m.variant != "FDD":
            if len(sf) != len(pi):
                self.inc("probe.step_lists_len_mismatch")
            elif _sel_key(tuple((float(a), int(b)) for a, b in zip(sf, pi))) not in m.cands:
                self.inc("probe.step_lists_not_in_model")
        self.log.add({"step": step, "ev": e, "note": note, "exc": exc, "ncands": len(m.cands),
                      "cands": h_obj(sorted(m.cands)), "shift": m.seen_shift})
        self.res["sig"].append(self._sig(e, note, exc))

    def _sig(self, e, note, exc):
        k = e["ev"]
        if k == "click":
            s = f"b{e['button']}{'s' if 'shift' in e.get('mods', ()) else ''}:{note.get('act') or 'none'}"
        elif k == "menu":
            s = "menu:" + e["label"].split()[0]
        elif k.startswith("key"):
            s = ("kp:" if k == "key_press" else "kr:") + ("shift" if e["key"] == "shift" else "other")
        else:
            s = k
        return s + ("!" if exc else "")

    def _pick_probes(self, x, y):
        m = self.model
        if m.variant == "FDD":
            return
        for s in m.cands:
            if len(s) >= 2:
                self.inc("probe.selection_size_ge2")
                break

    # -- the pump (called from FakeRoot.mainloop) -------------------------------------------
    def pump(self, root):
        self.canvas.flush_idle()
        step = 0
        while True:
            e = self.next_event()
            auto = e is None
            if auto:
                e = {"ev": "close"}
            if self.ops_in is None or auto:
                self.res["ops"].append(e)
            self.deliver(e, self.base + step)
            self.delivered += 1
            step += 1
            self.canvas.flush_idle()
            if root.quit_called:
                return
            if e["ev"] == "close":
                self.violate("live.no_close", step - 1, "WM_DELETE_WINDOW delivered but the main loop was not asked to quit")
                return
            if step > MAX_EVENTS:
                self.harness = "event cap exceeded"
                return


# ---------------------------------------------------------------------------------------------
# one run
# ---------------------------------------------------------------------------------------------
def gen_swarm(rng, tier="quick"):
    r = rng.random()
    nev = rng.randint(1, 6) if r < 0.2 else rng.randint(5, 14) if r < 0.7 else rng.randint(12, 24)
    W = {"press": rng.choice([3, 5, 8]), "b1": rng.choice([3, 5, 8]), "b3": rng.choice([0.5, 1.5, 3, 5]),
         "b2": rng.choice([0.5, 1.5, 3, 5]), "rel": rng.choice([0.3, 1, 2]), "menu": rng.choice([0.0, 0.5, 1.0]),
         "noise": rng.choice([0.0, 0.5, 1.5])}
    if tier == "thorough" and rng.random() < 0.2:
        nev = rng.randint(20, 40)
    faulty = rng.random() < 0.5
    plan = None
    if rng.random() < 0.4:
        plan = []
        for _ in range(rng.randint(1, 3)):
            plan.append(("pick", rng.randint(1, 4)))
            plan.append(("desel", rng.randint(0, 3)))
        nev = max(nev, sum(n for _, n in plan) + 2)
    return {"nevents": nev, "w": W, "faulty": faulty, "plan": plan, "p_drop": rng.choice([0.03, 0.08]), "p_dup": rng.choice([0.03, 0.08]),
            "p_swap": rng.choice([0.03, 0.08]), "descending": rng.random() < 0.5, "render": rng.random() < 0.1,
            # the user zooms out / pans before doing anything else: the view then extends beyond the table on all sides
            "zoom_out_first": rng.random() < 0.15}


def run_case(seed, tier="quick", case=None, known=()):
    """One history = one or two complete dialogs on the same algorithm object (a second mpe_from_plot must start
    from an empty selection and replace the modes of the first)."""
    init_worker()
    _S["guard"].reset()  # every history starts as a fresh process would
    import matplotlib.pyplot as plt

    rng = random.Random(seed)
    if case is None:
        w = gen_world(rng)
        swarm = gen_swarm(rng, tier)
        ops_in = None
        ndialogs = 2 if rng.random() < 0.3 else 1
    else:
        w = copy.deepcopy(case["world"])
        swarm = None
        ops_in = copy.deepcopy(case["ops"])
        ndialogs = None
    log = EventLog(seed)
    _env.set_log_debug(bool(w.get("log_debug")))
    log.add({"world": w})
    res = {"property": PROPERTY, "seed": seed, "world": w, "ops": [], "violations": [], "known": [],
           "counters": {}, "states": [], "sig": [], "sets": {}}
    try:
        ss, alg = build(w)
    except Exception as e:
        # building the world is not under test here (C15 owns runs); an unbuildable world is skipped
        res["counters"]["skip.world_build_failed"] = 1
        log.add({"skip": type(e).__name__})
        return _finish(res, log, None)
    if ops_in is not None:
        res["ops"] = list(ops_in)
    kw = {}
    if w.get("freqlim") is not None:
        kw["freqlim"] = tuple(w["freqlim"])
    kw.update(w.get("mpe_kw", {}))
    base, d, drv = 0, 0, None
    prev_nonempty = False
    while True:
        ref = copy.deepcopy(alg)  # for the differential extraction oracle
        table_before = h_obj(alg.result)
        drv = Driver(w, alg, rng, swarm, ops_in, res, log, base=base)
        tksim.CUR["drv"] = drv
        exc = None
        try:
            ss.mpe_from_plot("alg", **kw)
        except Exception as e:
            exc = e
        finally:
            tksim.CUR["drv"] = None
            plt.close("all")
        m = drv.model
        if drv.harness:
            raise RuntimeError("harness: " + drv.harness)
        if drv.canvas is None or drv.root is None:
            res["counters"]["skip.dialog_not_opened"] = 1
            log.add({"skip": "no dialog", "exc": type(exc).__name__ if exc else None})
            if exc is not None and not drv.handover_seen:
                drv.violate("live.no_dialog", -1, f"mpe_from_plot raised before the dialog opened: {type(exc).__name__}: {exc}")
            break
        if m.overflow:
            drv.inc("skip.candidate_overflow")
            break
        nsteps = base + drv.delivered
        _judge(drv, w, alg, ref, exc, nsteps, table_before)
        if d >= 1:
            drv.inc("probe.second_dialog_on_same_algorithm")
            if prev_nonempty and min(len(c) for c in m.cands) == 0:
                drv.inc("probe.second_dialog_ends_empty_after_modes_were_extracted")
        prev_nonempty = prev_nonempty or max(len(c) for c in m.cands) > 0
        base += drv.delivered
        d += 1
        if res["violations"]:
            break
        if d == 1 and w.get("retable") and w["source"] == "table" and w["variant"] in ("SSI", "pLSCF"):
            # the analyst was not satisfied, tuned something and ran again: the same algorithm object now holds ANOTHER pole
            # table, and the next dialog must work on that one
            from pyoma2.algorithms.data.result import SSIResult, pLSCFResult

            Fn2, Xi2, Phi2, Lab2, cov2 = gen_table(dict(w, seed=w["seed"] + 7919))
            if w["variant"] == "SSI":
                kw2 = dict(Fn_poles_cov=cov2[0], Xi_poles_cov=cov2[1], Phi_poles_cov=cov2[2]) if cov2 is not None else {}
                alg._set_result(SSIResult(Fn_poles=Fn2, Xi_poles=Xi2, Phi_poles=Phi2, Lab=Lab2, **kw2))
            else:
                alg._set_result(pLSCFResult(Fn_poles=Fn2, Xi_poles=Xi2, Phi_poles=Phi2, Lab=Lab2))
            res["counters"]["probe.new_pole_table_between_two_dialogs"] = 1
        if ops_in is None:
            if d >= ndialogs:
                break
            swarm = gen_swarm(rng, tier)
            if rng.random() < 0.5:
                # a short session that ends with nothing selected: pick k, deselect k
                k = rng.randint(0, 2)
                swarm["plan"] = [("pick", k), ("desel3", k + rng.randint(0, 1))]
                swarm["nevents"] = 2 * k + 3
                swarm["faulty"] = False
        elif base >= len(ops_in):
            break
    return _finish(res, log, drv)


def _pairs_from_handover(variant, h):
    if not isinstance(h, (tuple, list)) or len(h) != 2:
        return None, "result is not a (frequencies, orders) pair"
    f, o = h
    f = list(f) if f is not None else []
    if variant == "FDD":
        return _sel_key(tuple((float(a), None) for a in f)), None
    o = list(o) if o is not None else []
    if len(f) != len(o):
        return None, f"{len(f)} frequencies but {len(o)} orders"
    return _sel_key(tuple((float(a), int(b)) for a, b in zip(f, o))), None


def _judge(drv, w, alg, ref, exc, nsteps, table_before):
    m = drv.model
    variant = w["variant"]
    drv.inc("probe.final_selection_size_%d" % min(4, min(len(s) for s in m.cands)))
    # 2. hand-over
    got = None
    if drv.handover_seen:
        got, why = _pairs_from_handover(variant, drv.handover)
        if got is None:
            drv.violate("handover.len_mismatch", nsteps - 1, f"SelFromPlot(...).result: {why}")
            return
        if got not in m.cands:
            exp = sorted(m.cands)[:3]
            drv.violate("handover.pairs_neq", nsteps - 1,
                        f"handed over {list(got)}; the delivered actions leave {[list(s) for s in exp]}"
                        + (" (or %d more)" % (len(m.cands) - 3) if len(m.cands) > 3 else ""))
            return
        fr = [float(a) for a in drv.handover[0]]
        drv.inc("probe.handover_ascending" if fr == sorted(fr) else "probe.handover_not_ascending")
    else:
        drv.inc("probe.handover_not_captured")
    # 3. extraction
    r = alg.result
    if variant in ("SSI", "pLSCF"):
        if exc is not None:
            drv.violate("extract.raises", nsteps - 1, f"mpe_from_plot raised {type(exc).__name__}: {exc}")
            return
        Fn = np.atleast_1d(np.asarray(r.Fn, dtype=float)) if r.Fn is not None else None
        oo = r.order_out
        if (Fn is None or oo is None) and min(len(c) for c in m.cands) == 0:
            # nothing selected: "no modes" may be stored as empty arrays or not at all
            Fn = np.zeros(0) if Fn is None else Fn
            oo = [] if oo is None else oo
        if Fn is None or oo is None:
            drv.violate("extract.neq", nsteps - 1, "no Fn/order_out stored after mpe_from_plot")
            return
        oo = np.atleast_1d(np.asarray(oo))
        n_sel = {len(s) for s in m.cands}
        if len(Fn) != len(oo) or len(Fn) not in n_sel:
            drv.violate("extract.neq", nsteps - 1,
                        f"{len(Fn)} modes / {len(oo)} orders extracted for a selection of {sorted(n_sel)} poles")
            return
        ext = _sel_key(tuple((float(a), int(b)) for a, b in zip(Fn, oo)))
        if ext not in m.cands:
            drv.violate("extract.neq", nsteps - 1,
                        f"extracted pairs {list(ext)} are not the selected poles {[list(s) for s in sorted(m.cands)[:2]]}")
            return
        if got is not None and ext != got:
            drv.violate("extract.neq", nsteps - 1, f"extracted {list(ext)} but handed over {list(got)}")
            return
        # each mode carries the damping and shape of that same table cell
        Fp = np.asarray(ref.result.Fn_poles)
        Xp = np.asarray(ref.result.Xi_poles)
        Pp = np.asarray(ref.result.Phi_poles)
        Xi = np.atleast_1d(np.asarray(r.Xi)) if r.Xi is not None else None
        Phi = np.asarray(r.Phi) if r.Phi is not None else None
        for i, (f, c) in enumerate(zip(Fn, oo)):
            rows = np.flatnonzero(Fp[:, int(c)] == f)
            ok = False
            for rr in rows:
                xi_ok = Xi is not None and len(Xi) == len(Fn) and _same(Xi[i], Xp[rr, int(c)])
                ph_ok = Phi is not None and Phi.ndim == 2 and Phi.shape[1] == len(Fn) and _same(Phi[:, i], Pp[rr, int(c), :])
                ok |= bool(xi_ok and ph_ok)
            if not ok:
                drv.violate("extract.neq", nsteps - 1, f"mode {i} ({f} Hz @ order {int(c)}) does not carry that pole's damping/shape")
                return
        drv.inc("probe.extraction_checked")
    else:
        # FDD / EFDD: differential - the non-interactive mpe on the handed-over lines
        sel = [p[0] for p in (got if got is not None else sorted(m.cands)[0])]
        if got is None and len(m.cands) > 1:
            drv.inc("skip.fdd_extraction_ambiguous")
            return
        if drv.handover_seen:
            sel = [float(a) for a in drv.handover[0]]
        rexc = None
        try:
            ref.mpe(sel_freq=list(sel), **w.get("mpe_kw", {}))
        except Exception as e:
            rexc = e
        if (rexc is None) != (exc is None):
            drv.violate("extract.neq", nsteps - 1,
                        f"mpe_from_plot {'raised ' + type(exc).__name__ if exc else 'returned'} but mpe(sel_freq=handed-over lines) "
                        f"{'raised ' + type(rexc).__name__ if rexc else 'returned'}")
            return
        if exc is None:
            a, b = np.atleast_1d(np.asarray(r.Fn)), np.atleast_1d(np.asarray(ref.result.Fn))
            if a.shape != b.shape or not _same(a, b) or not _same(np.asarray(r.Phi), np.asarray(ref.result.Phi)):
                drv.violate("extract.neq", nsteps - 1, f"extracted Fn {a.tolist()} != mpe on the selected lines {b.tolist()}")
                return
            drv.inc("probe.extraction_checked")
        else:
            drv.inc("probe.extraction_raised_like_reference")
    # the pole tables themselves are untouched by the dialog
    for k in ("Fn_poles", "Xi_poles", "Phi_poles", "Lab", "freq", "S_val", "S_vec", "Sy"):
        if hasattr(ref.result, k) and h_obj(getattr(alg.result, k, None)) != h_obj(getattr(ref.result, k)):
            drv.violate("noise.table_changed", nsteps - 1, f"result.{k} changed during the dialog")
            return


def _same(a, b):
    a, b = np.asarray(a), np.asarray(b)
    if a.shape != b.shape:
        return False
    return bool(np.array_equal(a, b, equal_nan=True))


def _finish(res, log, drv):
    log.add({"violations": res["violations"]})
    res["digest"] = log.digest()
    res["log"] = log.dump()
    sig = res.pop("sig")
    res["signature"] = res["world"]["variant"] + "|" + ">".join(sig)
    res["steps"] = len(sig)
    m = drv.model if drv is not None else None
    res["nontrivial"] = bool(m and m.n_picks >= 1 and m.n_actions >= 2)
    if m is not None:
        res["states"] = [f"{res['world']['variant']}:shift{int(m.seen_shift)}:n{min(len(s) for s in m.cands)}"]
        res["sets"] = {"variants": [res["world"]["variant"] + "/" + res["world"]["cls"] + "/" + res["world"]["source"]]}
        c = res["counters"]
        if m.n_actions:
            c["probe.runs_with_selection_change"] = 1
        acts = [s.split(":")[1].rstrip("!") for s in sig if s[0] == "b" and ":" in s and not s.endswith(":none") and not s.endswith(":none!")]
        res["opseq3"] = [res["world"]["variant"] + "|" + ">".join(acts[:n]) for n in range(1, min(3, len(acts)) + 1)]
    return res


def fix_ops(case):
    return case


def shrink_candidates(case):
    w, ops = case["world"], case["ops"]
    # simpler events: drop modifiers noise, turn strays into nothing (deletion is done by ddmin)
    for i, e in enumerate(ops):
        if e["ev"] == "menu" and "fault" in e:
            o2 = copy.deepcopy(ops)
            del o2[i]["fault"]
            yield {"world": w, "ops": o2}
    if w.get("freqlim") is not None:
        w2 = copy.deepcopy(w)
        w2["freqlim"] = None
        yield {"world": w2, "ops": ops}
    if w["source"] == "table" and w["variant"] != "FDD":
        for key, small in (("nrows", 2), ("ncols", 3), ("nmodes", 1), ("p_nan", 0.0)):
            if w.get(key) not in (small, None) and w[key] > small:
                w2 = copy.deepcopy(w)
                w2[key] = small
                yield {"world": w2, "ops": ops}
        if w.get("ordmin"):
            w2 = copy.deepcopy(w)
            w2["ordmin"] = 0
            yield {"world": w2, "ops": ops}
        for key in ("dups", "empty_cols", "cov"):
            if w.get(key):
                w2 = copy.deepcopy(w)
                w2[key] = False
                yield {"world": w2, "ops": ops}


def extra_coverage(agg):
    return {
        "dialog_variants_driven": sorted(agg.sets.get("variants", ())),
        "action_sequences_len_le3_reached": len(agg.sets.get("opseq3", ())),
    }


RULE = (
    "one evaluation = one complete dialog opened through setup.mpe_from_plot() and closed by WM_DELETE_WINDOW, "
    "driven by 1-24 seeded key/mouse/menu/resize events (with loss, duplication, reordering, strays, save errors); "
    "distinct = distinct signature (dialog variant + sequence of delivered event classes with their effect); "
    "non-trivial = at least one successful pick plus at least one further selection-changing action"
)

COMPONENTS = {
    "real": ["pyoma2.support.sel_from_plot.SelFromPlot (all handlers, list maintenance, sorting, re-plots)",
             "setup.mpe_from_plot -> algorithm.mpe_from_plot -> ssi.SSI_mpe / plscf.pLSCF_mpe / fdd.FDD_mpe / fdd.EFDD_mpe",
             "pyoma2.functions.plot.stab_plot / CMIF_plot", "matplotlib Figure/Axes/transforms, MouseEvent/KeyEvent, CallbackRegistry",
             "real algorithm runs for the 'run' table source"],
    "stub": ["tkinter (Tk, Menu, messagebox) -> sim.tksim fakes; FakeRoot.mainloop() is the event pump",
             "FigureCanvasTkAgg -> subclass of the real FigureCanvasAgg (idle draws deferred to the pump)",
             "NavigationToolbar2Tk -> no-op", "os/glob/Figure.savefig of 'Save figure' -> in-memory directory"],
}

ASSUMPTIONS = [
    "Tk's own event translation (key names for chords, pixel rounding) is outside the simulation; events enter at matplotlib's CallbackRegistry",
    "a click whose coordinates are within 1e-9 (relative to the view range) of the midpoint between two orders/poles accepts either outcome",
    "which entry deselect-one removes is not specified by the property: any single entry is accepted",
]
