"""Self-tests of the machinery itself.

determinism : the same seed gives the same event log - twice in one process, in a 16-worker and a
              3-worker pool, and in a fresh interpreter under another PYTHONHASHSEED.
sensitivity : every patch under selftest/mutants/<id>/ breaks its property in a scratch copy of the
              sources (outside /repo and /verif); the quick check must exit 1 on it, and 0 on the
              pristine copy.
equivalents : behaviour-preserving rewrites under selftest/equivalents/<id>/ must exit 0.
"""
import glob
import json
import os
import shutil
import subprocess
import sys
import tempfile
import time

from sim.env import VERIF_DIR, repo_src

PIDS = ("C14", "C15", "C16")


def main(a):
    if a.selftest == "determinism":
        return determinism(a)
    if a.selftest == "sensitivity":
        return sensitivity(a, "mutants", expect=1)
    return sensitivity(a, "equivalents", expect=0)


# ---------------------------------------------------------------------------------------------
def determinism(a):
    from sim import env

    pids = [a.property] if a.property in PIDS else PIDS
    if os.environ.get("VERIF_EMIT_DIGESTS"):
        # child mode: print digests of the requested seeds and leave
        env.import_target()
        from sim import runner

        pid = os.environ["VERIF_EMIT_DIGESTS"]
        seeds = json.loads(os.environ["VERIF_EMIT_SEEDS"])
        mod = runner.load_check(pid)
        mod.init_worker()
        known = runner.known_fingerprints(pid)
        print("DIGESTS " + json.dumps({str(s): mod.run_case(s, known=known)["digest"] for s in seeds}))
        return 0
    env.import_target()
    from sim import runner

    n = a.runs or (24 if a.tier == "quick" else 200)
    base = int(os.environ.get("VERIF_SEED", "0"))
    bad = 0
    pairs = 0
    for pid in pids:
        t0 = time.time()
        seeds = [base * 1_000_003 + 7_000_000 + i for i in range(n)]
        mod = runner.load_check(pid)
        chunk = getattr(mod, "CHUNK", 8)
        _, _, (_, dA) = runner.run_batch(pid, seeds, "quick", 16, 3600, chunk=chunk, want_digests=True)
        _, _, (_, dB) = runner.run_batch(pid, list(reversed(seeds)), "quick", 3, 3600, chunk=max(1, chunk // 2), want_digests=True)
        mod.init_worker()
        known = runner.known_fingerprints(pid)
        sub = seeds[: max(8, n // 4)]
        d1 = {s: mod.run_case(s, known=known)["digest"] for s in sub}
        d2 = {s: mod.run_case(s, known=known)["digest"] for s in reversed(sub)}
        envc = dict(os.environ, PYTHONHASHSEED="4242", VERIF_EMIT_DIGESTS=pid, VERIF_EMIT_SEEDS=json.dumps(sub))
        p = subprocess.run([sys.executable, os.path.join(VERIF_DIR, "check"), "--selftest", "determinism"],
                           env=envc, capture_output=True, text=True, timeout=3600)
        line = [x for x in p.stdout.splitlines() if x.startswith("DIGESTS ")]
        if not line:
            print(f"HARNESS-ERROR determinism child for {pid} failed:\n{p.stdout}\n{p.stderr}")
            return 2
        dC = {int(k): v for k, v in json.loads(line[0][8:]).items()}
        for s in seeds:
            views = {"pool16": dA.get(s), "pool3": dB.get(s)}
            if s in d1:
                views.update({"inproc1": d1[s], "inproc2": d2[s], "fresh_hashseed": dC.get(s)})
            pairs += len(views) - 1
            if len(set(views.values())) != 1:
                bad += 1
                print(f"NONDETERMINISTIC {pid} seed={s}: {views}")
                _show_divergence(mod, s, known)
        print(f"determinism {pid}: {n} seeds, {time.time() - t0:.1f}s, mismatches so far {bad}")
    print(f"determinism: {pairs} digest pairs compared, {bad} mismatching seeds")
    return 2 if bad else 0


def _show_divergence(mod, s, known):
    a = mod.run_case(s, known=known)["log"]
    b = mod.run_case(s, known=known)["log"]
    for i, (x, y) in enumerate(zip(a, b)):
        if x != y:
            print(f"  first differing record #{i}:\n   {json.dumps(x)[:400]}\n   {json.dumps(y)[:400]}")
            return
    print("  (two further in-process executions agree; the divergence is between processes)")


# ---------------------------------------------------------------------------------------------
def _scratch_copy():
    td = tempfile.mkdtemp(prefix="pyoma2-mut-")
    assert not td.startswith("/repo") and not td.startswith("/verif")
    shutil.copytree(repo_src(), os.path.join(td, "src"), ignore=shutil.ignore_patterns("__pycache__"))
    return td


def _run_check(pid, td, runs=None, tier="quick"):
    env = dict(os.environ, VERIF_REPO_SRC=os.path.join(td, "src"), VERIF_REPLAY_DIR=os.path.join(td, "replays"))
    cmd = [sys.executable, os.path.join(VERIF_DIR, "check"), pid, "--tier", tier, "--no-evidence"]
    if runs:
        cmd += ["--runs", str(runs)]
    t0 = time.time()
    p = subprocess.run(cmd, env=env, capture_output=True, text=True, timeout=7200)
    return p.returncode, p.stdout + p.stderr, time.time() - t0


def sensitivity(a, kind, expect):
    pids = [a.property] if a.property in PIDS else PIDS
    rows = []
    failed = 0
    for pid in pids:
        patches = sorted(glob.glob(os.path.join(VERIF_DIR, "selftest", kind, pid, "*.patch")))
        if expect == 1:
            td = _scratch_copy()
            try:
                rc, out, dt = _run_check(pid, td, a.runs)
            finally:
                shutil.rmtree(td, ignore_errors=True)
            ok = rc == 0
            rows.append((pid, "<pristine copy>", rc, ok, dt, ""))
            failed += not ok
            if not ok:
                print(out[-3000:])
        for patch in patches:
            td = _scratch_copy()
            try:
                ap = subprocess.run(["patch", "-p1", "-d", td, "-i", patch, "--no-backup-if-mismatch", "-s"], capture_output=True, text=True)
                if ap.returncode != 0:
                    rows.append((pid, os.path.basename(patch), "patch failed", False, 0, ap.stdout + ap.stderr))
                    failed += 1
                    continue
                rc, out, dt = _run_check(pid, td, a.runs)
                if rc != expect and expect == 1 and rc == 0 and a.tier == "thorough":
                    rc, out, dt2 = _run_check(pid, td, None, tier="thorough")
                    dt += dt2
            finally:
                shutil.rmtree(td, ignore_errors=True)
            fps = sorted({ln.split(":")[0].strip() for ln in out.splitlines() if ln.startswith("  ") and "violating runs" in ln})
            ok = rc == expect
            failed += not ok
            rows.append((pid, os.path.basename(patch), rc, ok, dt, ", ".join(fps)))
            if not ok and a.verbose:
                print(out[-2000:])
    w = max(len(r[1]) for r in rows) if rows else 10
    for pid, name, rc, ok, dt, fps in rows:
        print(f"{pid}  {name:<{w}}  exit={rc}  {'as expected' if ok else 'UNEXPECTED'}  {dt:6.1f}s  {fps}")
    print(f"{kind}: {len(rows)} trees checked, {failed} unexpected outcomes")
    return 0 if not failed else 3
